#!/bin/bash
# usage: eval_seed.sh <patch.diff> <tier> <PID> [PID...]
# applies a candidate breaking change to /repo, runs the named checks, and ALWAYS restores /repo.
patch=$1; tier=$2; shift 2
cd /repo || exit 2
if [ -n "$(git status --porcelain --untracked-files=no)" ]; then echo "repo not clean"; exit 2; fi
git apply "$patch" || { echo "patch does not apply"; exit 2; }
trap 'git -C /repo checkout -- . ; git -C /repo clean -fdq -e target' EXIT
if [ "${RUN_SUITE:-1}" = "1" ]; then
  echo "suite: $(cargo test --offline 2>&1 | grep -E '^test result' | head -1)"
fi
cd /verif
for p in "$@"; do
  s=$(date +%s)
  out=$(./check $p $tier 2>&1); rc=$?
  e=$(date +%s)
  echo "== $p rc=$rc $((e-s))s"
  echo "$out" | grep -E "^(VIOLATION|KNOWN|HARNESS|  scenario)" | head -8
done
