#!/bin/bash
# usage: eval_seed.sh <patch.diff> <tier> <PID> [PID...]
# applies a candidate change to the repository under test, runs the named checks, and ALWAYS restores the repository.
# The repository is /repo unless VERIF_REPO names a scratch checkout (used for a second, parallel evaluation lane:
# a git worktree of /verif plus a git worktree of /repo, so that nothing touches /repo or /verif/sim/Cargo.toml).
patch=$(readlink -f "$1"); tier=$2; shift 2
here="$(cd "$(dirname "$0")" && pwd)"
repo=${VERIF_REPO:-/repo}
cd $repo || exit 2
if [ -n "$(git status --porcelain --untracked-files=no)" ]; then echo "repo not clean"; exit 2; fi
git apply "$patch" || { echo "patch does not apply"; exit 2; }
trap 'git -C $repo checkout -- . ; git -C $repo clean -fdq -e target' EXIT
if [ "${RUN_SUITE:-1}" = "1" ]; then
  echo "suite: $(cargo test --offline 2>&1 | grep -E '^test result' | head -1)"
fi
cd $here
for p in "$@"; do
  s=$(date +%s)
  out=$(./check $p $tier 2>&1); rc=$?
  e=$(date +%s)
  echo "== $p rc=$rc $((e-s))s"
  echo "$out" | grep -E "^(VIOLATION|KNOWN|HARNESS|NOTE|  scenario)" | head -8
done
