#!/usr/bin/env python3
"""Regenerates /verif/MANIFEST.json from the tables below (kept next to the driver so that they cannot drift)."""
import json, subprocess

HOOK_COMMITS = subprocess.run(["git", "-C", "/repo", "log", "--format=%h %s", "--grep=^verif-hooks"], stdout=subprocess.PIPE, text=True).stdout.strip().splitlines()

TECH = "deterministic simulation with fault injection: seeded search over operation schedules and fault sequences against an executable reference model, ddmin-minimised replay files"

CHECKS = {
    "C02": dict(
        level="exploration",
        text="Seeded deterministic simulation of every hash context type (30 variants incl. keyed/odd-size/dynamic BLAKE2): up to 4 forked handles, scheduler-chosen interleaving of update/update_mut/fork/reset/reset_with_key/finalize_reset/finalize with block-boundary fragmentation and misaligned slices; every finalize and every still-live handle at end of run is compared with the library's own one-call digest of the model's byte log. All sequences of <=3 boundary operations per variant are enumerated first; the deciding step is the random search (1.5M runs quick, 60M thorough). Sampling, not proof.",
        ref="DESIGN.md §4.1",
        note="Trusted: the harness (PRNG, byte-log model, shrinker) and the library's one-call digest path as ground truth (a consistently wrong digest is C01's business, deliberately). Real code: all cryptoxide::hashing contexts.",
        technique=TECH + "; oracle = one-call digest of the model log",
    ),
}

NOT_APPLICABLE = {
    "C01": "digest == specification for every message is a pure function of (variant, message): no operation history, interleaving, fault or configuration in the statement, so there is nothing for a scheduler or fault injector to decide; sampling messages from a seed would be input fuzzing under another name (DESIGN.md §5)",
    "C10": "HKDF/PBKDF2/scrypt == RFCs: pure functions of their arguments; no schedule, clock, fault or history (their refusal behaviour under misuse is exercised under C20) (DESIGN.md §5)",
    "C11": "Argon2 == RFC 9106: pure function; lanes are filled by one sequential loop, there is no parallel schedule to explore (DESIGN.md §5)",
    "C12": "X25519 == RFC 7748: pure function of (scalar, u); the two-party agreement clause is an algebraic identity of that function (DESIGN.md §5)",
    "C13": "Ed25519 keygen/sign == RFC 8032: deterministic pure functions of (seed, message) (DESIGN.md §5)",
    "C15": "field/scalar/group arithmetic identities: pure arithmetic, no state, schedule or fault (DESIGN.md §5)",
    "C18": "constant-time helpers return the ordinary answer: pure predicates (DESIGN.md §5)",
    "C19": "secret-independent instruction trace: the observable is the program-counter trace of the compiled code; a simulator driving the public API in-process cannot observe it, and recording real executions is runtime monitoring, a different family (DESIGN.md §5)",
}

# properties planned (DESIGN.md) but whose check is not registered yet: listed as not claimed, honestly
PENDING = {
    "C03": "not claimed yet: the simulation scenario planned in DESIGN.md §4.2 is not registered at this commit",
    "C04": "not claimed yet: the simulation scenario planned in DESIGN.md §4.3 is not registered at this commit",
    "C05": "not claimed yet: the simulation scenario planned in DESIGN.md §4.4 is not registered at this commit",
    "C06": "not claimed yet: the simulation scenario planned in DESIGN.md §4.5 is not registered at this commit",
    "C07": "not claimed yet: the simulation scenario planned in DESIGN.md §4.6 is not registered at this commit",
    "C08": "not claimed yet: the simulation scenario planned in DESIGN.md §4.7 is not registered at this commit",
    "C09": "not claimed yet: the simulation scenario planned in DESIGN.md §4.8 is not registered at this commit",
    "C14": "not claimed yet: the simulation scenario planned in DESIGN.md §4.9 is not registered at this commit",
    "C16": "not claimed yet: the simulation scenario planned in DESIGN.md §4.10 is not registered at this commit",
    "C17": "not claimed yet: the simulation scenario planned in DESIGN.md §4.11 is not registered at this commit",
    "C20": "not claimed yet: the simulation scenario planned in DESIGN.md §4.12 is not registered at this commit",
}

def main():
    checks = []
    for pid in sorted(CHECKS):
        c = CHECKS[pid]
        checks.append({
            "property_id": pid,
            "quick_cmd": "./check %s quick" % pid,
            "thorough_cmd": "./check %s thorough" % pid,
            "evidence_file": "/verif/evidence/%s.json" % pid,
            "replay_cmd_template": "./check --replay {path}",
            "engine": "cxsim",
            "level_claimed": {"category": c["level"], "text": c["text"], "design_ref": c["ref"]},
            "level_note": c["note"],
            "technique": c["technique"],
        })
    na = [{"property_id": k, "reason": v} for k, v in sorted(NOT_APPLICABLE.items())]
    for k, v in sorted(PENDING.items()):
        if k not in CHECKS:
            na.append({"property_id": k, "reason": v})
    na.sort(key=lambda x: x["property_id"])
    m = {
        "version": 1,
        "setup_cmd": "./check --setup",
        "hooks": {
            "guard": "cargo feature verif-hooks (cryptoxide/Cargo.toml, off by default)",
            "enable": "the simulator crate /verif/sim depends on cryptoxide by path with features=[\"verif-hooks\"]; every check runs `cargo build --offline` of /verif/sim, which recompiles /repo's working tree",
            "baseline_off_cmd": "cd /repo && cargo test --workspace --no-fail-fast --offline",
            "source_commits": HOOK_COMMITS,
            "add_only": True,
        },
        "engines": [{
            "name": "cxsim",
            "path": "/verif/sim",
            "serves_properties": sorted(CHECKS),
            "kind_free_text": "single-process deterministic simulator: seeded xoshiro256** scheduler over handles/operations/faults, executable reference models, catch_unwind observation of loud failures, ddmin shrinker, replay files; driver /verif/check builds it per build configuration and diffs transcripts across builds",
        }],
        "checks": checks,
        "not_applicable": na,
        "notes": "Default VERIF_SEED=1 (fixed so the unchanged tree is always checked on the same executions). exit 2 = harness error. Known findings: /verif/known_findings.json.",
    }
    with open("/verif/MANIFEST.json", "w") as f:
        json.dump(m, f, indent=1)
        f.write("\n")

if __name__ == "__main__":
    main()
