#!/usr/bin/env python3
"""Regenerates /verif/MANIFEST.json from the tables below (kept next to the driver so that they cannot drift)."""
import json, subprocess

HOOK_COMMITS = subprocess.run(["git", "-C", "/repo", "log", "--format=%h %s", "--grep=^verif-hooks"], stdout=subprocess.PIPE, text=True).stdout.strip().splitlines()

TECH = "deterministic simulation with fault injection: seeded search over operation schedules and fault sequences against an executable reference model, ddmin-minimised replay files"

CHECKS = {
    "C02": dict(
        level="exploration",
        text="Seeded deterministic simulation of every hash context type (30 variants incl. keyed/odd-size/dynamic BLAKE2): up to 4 forked handles, scheduler-chosen interleaving of update/update_mut/fork/reset/reset_with_key/finalize_reset/finalize with block-boundary fragmentation and misaligned slices; every finalize and every still-live handle at end of run is compared with the library's own one-call digest of the model's byte log. All sequences of <=3 boundary operations per variant are enumerated first; the deciding step is the random search (1.5M runs quick, 100M thorough). The same split / clone / finalize-and-reset statement is also run on contexts whose BLAKE2 byte counter or SHA-1/SHA-2/RIPEMD-160 length counter was preset through hooks H1/H4 next to a word boundary (scenarios ctrwrap, lenwrap: fragmented history vs one call under the same preset; a reset or finalize_reset in the middle must give a new unkeyed context with a zero counter), a state real data only reaches after 2^29..2^64 bytes. In a quarter of the BLAKE2 runs a call the API refuses (finalize_reset[_with_key]_at into a wrong-size buffer, an over-long key) is made on the live context and the history goes on: the digest must still depend only on the bytes fed (a later call may fail loudly, never return a wrong digest). A quarter of the re-keying calls use a key related to the one in use (same bytes zero-extended or cut, all zeros, the same key, last bit flipped); a third of the forks go through Clone::clone_from into a context of the same type that holds other pending bytes; one run in 300 is a long history of 300-700 calls. BLAKE2 const-size contexts are constructed through both documented routes (Context::new[_keyed] and the Blake2b/Blake2s marker types). Sampling, not proof.",
        ref="DESIGN.md §4.1",
        note="Trusted: the harness (PRNG, byte-log model, shrinker) and the library's one-call digest path as ground truth (a consistently wrong digest is C01's business, deliberately). Real code: all cryptoxide::hashing contexts.",
        technique=TECH + "; oracle = one-call digest of the model log",
    ),
    "C03": dict(
        level="exploration",
        text="The block counter is the stream's clock; faults are clock jumps (public seek for ChaCha/XChaCha, counter-preset hook for ChaChaOriginal/Salsa/XSalsa and for the SSE2 and portable engines driven through hook H3) to values next to 2^32-1 and to low-word carries, followed by fragmented process/process_mut histories across the boundary, source, destination and in-place buffers each at a misalignment of their own (0..31 bytes), destinations pre-filled with garbage, single calls up to 2 MiB. Every output byte is compared with an independent RFC 8439 / Bernstein block-function model at the absolute block index, and the counter getter must name the block the stream stands in or the next one (either bookkeeping is accepted; the keystream is what the property constrains). Jump targets include the last three blocks of a 64-bit-counter stream; histories there are clamped to stop at the end of the stream. Key, nonce, rounds and key length are seeded input sampling and labelled as such. 1.5M runs quick, 100M thorough.",
        ref="DESIGN.md §4.2",
        note="Trusted: the harness's scalar ChaCha/Salsa/HChaCha/HSalsa model (unit-tested against RFC 8439 §2.3.2 and the XChaCha draft vector, and agreeing with the library on every run of the unchanged tree), hooks H2/H3. Does not cross 2^64 blocks (outside any specified domain).",
        technique=TECH + "; oracle = independent keystream model + counter invariant through a hook getter",
    ),
    "C04": dict(
        level="exploration",
        text="streampos: up to 4 forked handles of one stream-cipher context, scheduler-chosen process (into a dirty destination at its own misalignment, calls up to 300 000 bytes), process_mut, fork, seek (0, mid-range, 2^32-1, from mid-block) and apply-twice, and in a quarter of the runs a refused call (process with mismatched buffer lengths, after which the position must be unchanged); every output must be input XOR the one-call stream of a fresh context at the model's absolute position (far seeks: fresh-context seek plus adjacent-seek consistency; wrap past 2^32 blocks must land on block 0). drg: request sequences bytes<N>/fill_bytes<N>/fill_slice/u32/u64 into destinations pre-filled with PRNG garbage and misaligned by 0..31 bytes; outputs must be the successive bytes of the specified ChaCha keystream for that seed (independent block-function model, all-zero nonce, from block 0). 1M+1M runs quick, 60M+60M thorough.",
        ref="DESIGN.md §4.3",
        note="streampos uses self-referential ground truth on purpose (the library's own one-call stream: the clause is about position semantics, and a wrong-but-consistent cipher trips C03); the DRG clause names the ChaCha keystream itself, so drg is judged against the independent model. u32/u64 byte order is not part of the property: either reading is accepted.",
        technique=TECH + "; oracle = one-call stream of a fresh context at the model position",
    ),
    "C05": dict(
        level="exploration",
        text="Poly1305 under every delivery: the message reaches the object as any sequence of input fragments (staging-buffer paths: partial+partial, partial completed exactly, partial then many blocks), with forks mid-message and result/raw_result into dirty oversized buffers; tags are compared with an independent big-integer model of RFC 8439 §2.5. Key classes (random, all-ones, r in {0,1,2}, unclamped r) and message classes (every length 0..=80 enumerated in 4 split styles, all-0xff and RFC 8439 A.3 wrap-around blocks) are part of the generator; blocks SOLVED at execution time (modular inverse of r in the model) so that the accumulator takes a chosen extreme value right after them - p-1-d, 0..7, 2^128+-d, 2^129+-d, 2^130-6-d, saturated 26/32/44-bit limb patterns, powers of two - optionally followed by 0xff blocks in the same call) are part of the generator; the 'accumulator has a second representative above p' probe must fire. The scenario runs in the default build and in the force-32bits build, each judged against the same model. 2M+0.5M runs quick, 150M+20M thorough.",
        ref="DESIGN.md §4.4",
        note="Trusted: the harness's 320-bit integer Poly1305 model (unit-tested against RFC 8439 §2.5.2 and A.3 #5). Key/message classes are input sampling; the simulator adds the delivery dimension and the fork.",
        technique=TECH + "; oracle = independent big-integer Poly1305",
    ),
    "C06": dict(
        level="exploration",
        text="Two parties over a fault-free channel. Sender: one-shot ChaChaPoly1305 or incremental Context -> add_data* -> to_encryption -> encrypt|encrypt_mut* -> finalize with AAD and data fragmented around 16 and 64 bytes, forks of Context and ContextEncryption mid-way (every fork is finished and checked). Receiver: independently chosen path and fragmentation. Oracles: (ciphertext, tag) equals an independent RFC 8439 §2.8 model (ChaCha block function + big-integer Poly1305) for rounds 8/12/20 and 128/256-bit keys; the receiver returns the plaintext and reports success. In one run of six the last piece of one handle is SOLVED by the model (Poly1305 equation mod 2^130-5 for the last ciphertext block) so that the honest tag is all-zero, all-ones, 1, 2^127, half-zero, or the final accumulator is 0 / p-1; every destination and in-place buffer sits at a misalignment of its own. 1M runs quick, 80M thorough.",
        ref="DESIGN.md §4.5",
        note="Trusted: the two independent models above. RFC 8439 defines 256-bit keys and 20 rounds; other rounds/key lengths are checked against the same construction over the corresponding ChaCha variant.",
        technique=TECH + "; oracle = independent RFC 8439 AEAD model + sender->receiver round trip",
    ),
    "C07": dict(
        level="fault_enumeration",
        text="Channel fault injection between a real sender and real receivers: for every sampled honest (key, nonce, aad, ciphertext, tag) the complete catalogue of alterations is enumerated (all 128 tag bits, all 96 nonce bits, every bit of components <=64 bytes and sampled bits beyond, truncation/extension by 1/15/16 with zeros and garbage, moving bytes across the AAD/ciphertext boundary both ways, swapping AAD and ciphertext, swapping the two length roles, replay under another nonce, zero tag, tag of another message), each delivered to a fresh one-shot receiver AND a fresh incremental receiver with random fragmentation (pieces up to the whole remainder, messages up to 70 KiB in 1 run of 120; in about one delivery of eight the incremental receiver first has a call refused - buffer-to-buffer decrypt with a mismatched output length - and goes on with the same object). Verdict oracle: accept iff the delivered tag equals the independent model's RFC 8439 tag of exactly the delivered inputs; both receivers must agree. In one run of five the honest message itself is chosen (solved last block) so that its tag is one of those special values - the zero-tag alteration is then no alteration and must be accepted by both receivers. ~790 deliveries per run; 20k runs quick, 1.5M thorough.",
        ref="DESIGN.md §4.6",
        note="The catalogue is enumerated completely per sampled message (fault_enumeration); the messages themselves are sampled. Trusted: independent tag model.",
        technique=TECH + "; channel-fault catalogue enumerated per sampled message, oracle = independent tag model",
    ),
    "C08": dict(
        level="exploration",
        text="Hmac<D> for all 18 legacy digest objects under every delivery: key-length classes {0,1,B-1,B,B+1,2B+1,random} x message fragmentation around the digest's block (enumerated shapes first, then random) x result/raw_result into a dirty buffer, compared with H((K'^opad)||H((K'^ipad)||m)) composed in the harness with H = the STANDARD digest (independent implementations of SHA-1, SHA-2, SHA-3, Keccak, RIPEMD-160, BLAKE2b/2s in model::digests, unit-tested against published vectors and lengths 0..300 of every variant) and the block size written down from the standards; Digest::block_size, output_bytes and Hmac::output_bytes are compared with the specified sizes. 1M runs quick, 80M thorough.",
        ref="DESIGN.md §4.7",
        note="H is an independent implementation of the standard digest, so a digest that deviates from its standard at a length HMAC reaches (e.g. a padding slip at block-9..block+1) is reported too; the violation text says whether the library's own one-call hash explains the tag (digest deviates) or not (HMAC construction deviates).",
        technique=TECH + "; oracle = RFC 2104 composition over independent standard digests",
    ),
    "C09": dict(
        level="exploration",
        text="Three-state lifecycle model (absorbing / done / retired) per handle for Poly1305, Hmac over 18 digests, legacy BLAKE2b/BLAKE2s through Mac (keyed and unkeyed) and the 18 legacy digest wrappers: scheduler-chosen input, result, raw_result, reset, reset_with_key, fork over up to 3 handles, with the misuse faults 'result again' and 'input after result' injected in half of the runs; one run in six uses a degenerate key (all zero, first or second half zero, all ones). Oracles: first result == a fresh object of the same type and key fed the same bytes in one call (and == the one-call hash for digest wrappers, == the static one-call function for keyed legacy BLAKE2); second result == first or a loud failure; input after result and result into a wrong-size buffer must fail loudly; reset keeps the key; a re-key of a legacy BLAKE2 object with an over-long key is refused and must leave key, bytes fed and lifecycle state as they were (checked by what follows: reset, input, result); a third of the valid re-keys use a key related to the one in use (zero-extended or cut, all zeros, identical, last bit flipped), usually followed by message, result and the trait-level reset that re-keys from the stored copy; one run in 300 is a long history (300-700 calls). After a call that was refused loudly the history goes on with the same object and an unchanged model: later calls may fail loudly (the handle is then retired) but a call that returns must return the right value. 1M runs quick, 80M thorough.",
        ref="DESIGN.md §4.8",
        note="Self-referential ground truth ('behaves like a freshly constructed one'). A refused call does not end the history: 'no history makes an object return a value that is not the MAC or digest of the bytes fed' includes histories with refused calls; what is tolerated after a refusal is a loud failure, never a wrong value. Keyed legacy BLAKE2 is driven through Mac only (Digest::reset on a keyed object is documented as 'state after new').",
        technique=TECH + "; oracle = lifecycle state machine + fresh object fed in one call",
    ),
    "C14": dict(
        level="fault_enumeration",
        text="Signer -> hostile channel -> verifier, plus a Byzantine sender. For every sampled honest (seed, message) the complete catalogue is enumerated: untouched (must accept); all 512 signature bit flips, all 256 public-key bit flips, every/sampled message bit, truncate/extend, S+kL for k=1..15, another signer's key, another message's signature (must reject: an accepted one would be a forgery). Adversarial triples are judged by an INDEPENDENT Ed25519 model written from RFC 8032 on plain 256-bit integers (model::ed25519; unit-tested against RFC 8032 test vectors, base-point order and torsion orders): the honest triple itself, random (key, signature) pairs, canonical non-point keys, mixed-order keys A+T (T of order 2/4/8) with a signature produced by the real signer over those key bytes (valid iff the torsion part cancels), boundary values of S (0, 1, L-1, L, L+1, 2^252, ...), special encodings of R (the 8 torsion points, non-canonical identity encodings, random), crafted equations with S from the boundary family around L / 2^252 / 2L / 8L, honest signatures made from an UNCLAMPED extended secret (signature_extended + extended_to_public, 9 scalar classes up to the top of scalarmult_base's documented range a[31] <= 0x80, incl. scalars with runs of one repeated byte; must verify and must satisfy the model), special R (torsion points, non-canonical identity encodings, random) combined with degenerate S (0, 1, 8, L-1, L) under the honest key, the small-order-key forgeries with canonical and non-canonical R whose verdict is also known in closed form, and small-order keys TOGETHER with a small-order component in R (R = [S]B + T, S = 0 or a boundary scalar, message searched so that T + h*A = O under both readings of h): triples that satisfy the equation although neither R nor A is the identity. Where the property text does not fix the verdict (non-canonical key encodings; keys with a torsion component for which 'h' reduced mod L or not gives different answers) the model says 'unspecified' and the run does not judge. ~1000 verifications per run; 2k runs quick, 120k thorough.",
        ref="DESIGN.md §4.9 and §10",
        note="Trusted: the harness's integer Ed25519 model and its own SHA-512 (FIPS 180-4; the verdict oracle does not use the library's hash). Triples are sampled (catalogue enumerated per sample), so this is evidence, not proof, that verify accepts exactly the triples satisfying the equation. Non-canonical encodings of the PUBLIC KEY are recorded but not judged.",
        technique=TECH + "; channel-fault catalogue enumerated per sampled signature; verdict oracle = independent RFC 8032 model (closed-form for forgery-hard alterations)",
    ),
    "C16": dict(
        level="exploration",
        text="Cross-build replay: the simulator is built five times from the same tree (baseline = SSE2 ChaCha + portable SHA-256/BLAKE2, +sse4.1, +avx, +avx2, and -C target-cpu=native = everything else the host has, here SHA-NI and AVX-512VL; features the host CPU lacks are skipped and reported) and every binary executes the SAME seeds of hashbulk (SHA-224/256, BLAKE2b/2s with 1..=20 blocks per update at every alignment 0..31 after every partial-buffer fill, keyed/unkeyed), hashctx, ctrjump, streampos, aeadflow, hmacsplit, polysplit, lifecycle, ctrwrap and kdfprobe (HKDF/PBKDF2/scrypt/Argon2, outputs into dirty misaligned buffers, HKDF also with digest objects that carry pending bytes or were already finalised, PBKDF2 over 14 PRFs of every output-length class), and x25519hs / arithprog / sigchannel / ctprobe; the curve scenarios are also replayed in the combined build force-32bits + avx2; per-run transcripts (FNV-128 of every byte the real code returned) are diffed against the baseline, a divergence is located to a run, ddmin-minimised with 'the two binaries disagree' as predicate and replayed in fresh processes. In every binary the active (SSE2) ChaCha engine is additionally run in lock-step with the portable engine (hook H3): init for every key/nonce length, rounds, add_back, counters, outputs.",
        ref="DESIGN.md §4.10",
        note="One seed is one execution whatever the compile-time dispatch selected. A defect shared by all paths changes all transcripts equally and is not C16's business. AVX-512/SHA-NI/aarch64 paths do not exist or are not reachable on this host.",
        technique="deterministic simulation replayed across build configurations: same seeded schedules in 5 builds (+1 for the curve scenarios), transcript equality, ddmin with a two-binary oracle; engine lock-step in-process",
    ),
    "C17": dict(
        level="exploration",
        text="Cross-build replay across {default 64-bit limbs, --features force-32bits}. 'The library compiles' is checked for real (path dependency, no lint capping): a build failure is a violation with the compiler output as replay artefact. Then both binaries execute the same seeds of sigchannel (Ed25519 keygen/sign/verify verdict vector over the whole channel catalogue incl. S+kL and small-order forgeries), x25519hs (two-party handshake with substituted edge-value u-coordinates, raw curve25519/curve25519_base, ed25519::exchange) and arithprog (seeded straight-line programs over the public Fe/Scalar/Ge API inside the documented operand discipline; scalar decoders and wide reductions are fed boundary families around multiples of L and sparse 512-bit values; scalars with runs of one repeated byte - 0x77, 0x88, 0xff, ... - over a stretch or exactly one 64-bit word, so that window recodings carry through the whole run; the public constants Fe::{ZERO, ONE, SQRTM1, D, D2} are loaded and observed; == and != are both recorded); transcripts are diffed run by run, divergences minimised with the two binaries as oracle.",
        ref="DESIGN.md §4.11",
        note="arithprog is seeded program generation executed in two builds and diffed (nothing scheduled or faulted) and the evidence says so. Restricted to the API subset common to both backends; scalar::muladd is crate-private and reached through ed25519::signature only.",
        technique="deterministic simulation replayed across the two limb backends: same seeded workloads in 2 builds, transcript equality, ddmin with a two-binary oracle; plus 'it compiles'",
    ),
    "C20": dict(
        level="fault_enumeration",
        text="Three build profiles of the simulator (plain release; release with overflow checks and debug assertions; dev) execute the same seeds. (1) misuse: the complete catalogue of invalid calls (45 entry-point families, 497 (entry, argument) pairs) is enumerated in every run, each call injected after a random valid history of the object concerned; every call must panic or return Err, none may return a value; its mirror image `validedge` (63 calls exactly on the legal side of the documented limits, e.g. ScryptParams::new with the largest legal p for 29 values of r up to 2^30-1) must return normally in every profile. (2) ctrwrap / lenwrap: BLAKE2 byte counters (hook H1) preset next to 2^32 / 2^64 and next to the sign boundaries 2^31 / 2^63 (histories include reset and finalize_reset of the preset context) and SHA-1/SHA-2/RIPEMD-160 message-length counters (hook H4) preset next to 2^29..2^93 bytes, then a fragmented history across the boundary: no panic, counter getter invariant after every op, digest equal to the one-call digest under the same preset. (3) every other scenario's valid operations (hash contexts, stream ciphers incl. counter jumps next to 2^32-1, DRG, Poly1305, AEAD, HMAC, lifecycle, Ed25519, X25519, curve programs, KDFs): any panic on a valid operation in any profile is a violation, and the transcripts of the checked and dev builds must equal the plain release one. The public constant-time helper API is run the same way (scenario ctprobe: structured operand pairs, no value oracle - that would be C18). Thorough tier adds a Miri run (bounds, alignment, initialisation) of ~100 seeded histories (sources, destinations and in-place buffers at independent misalignments).",
        ref="DESIGN.md §4.12",
        note="The catalogue is enumerated completely (fault_enumeration); histories are sampled. A panic is observed through catch_unwind; an abort, fault or endless loop kills or stalls the simulator process: the driver localises the run (bisection over run ranges, or the simulator's watchdog for a hang), shortens its trace and reports it with a replay file (kind 'crashed'). Hash length counters are preset through hook H4 (scenario lenwrap). Miri runs with -Zmiri-disable-stacked-borrows (see DESIGN.md).",
        technique="deterministic simulation with fault injection replayed across build profiles: enumerated misuse catalogue inside seeded valid histories, counter-preset clock jumps, transcript equality across 3 profiles",
    ),
}

NOT_APPLICABLE = {
    "C01": "digest == specification for every message is a pure function of (variant, message): no operation history, interleaving, fault or configuration in the statement, so there is nothing for a scheduler or fault injector to decide; sampling messages from a seed would be input fuzzing under another name (DESIGN.md §5)",
    "C10": "HKDF/PBKDF2/scrypt == RFCs: pure functions of their arguments; no schedule, clock, fault or history (their refusal behaviour under misuse is exercised under C20) (DESIGN.md §5)",
    "C11": "Argon2 == RFC 9106: pure function; lanes are filled by one sequential loop, there is no parallel schedule to explore (DESIGN.md §5)",
    "C12": "X25519 == RFC 7748: pure function of (scalar, u); the two-party agreement clause is an algebraic identity of that function (DESIGN.md §5)",
    "C13": "Ed25519 keygen/sign == RFC 8032: deterministic pure functions of (seed, message) (DESIGN.md §5)",
    "C15": "field/scalar/group arithmetic identities: pure arithmetic, no state, schedule or fault (DESIGN.md §5)",
    "C18": "constant-time helpers return the ordinary answer: pure predicates (DESIGN.md §5)",
    "C19": "secret-independent instruction trace: the observable is the program-counter trace of the compiled code; a simulator driving the public API in-process cannot observe it, and recording real executions is runtime monitoring, a different family (DESIGN.md §5)",
}

# properties planned (DESIGN.md) but whose check is not registered yet: listed as not claimed, honestly
PENDING = {
}

def main():
    checks = []
    for pid in sorted(CHECKS):
        c = CHECKS[pid]
        checks.append({
            "property_id": pid,
            "quick_cmd": "./check %s quick" % pid,
            "thorough_cmd": "./check %s thorough" % pid,
            "evidence_file": "/verif/evidence/%s.json" % pid,
            "replay_cmd_template": "./check --replay {path}",
            "engine": "cxsim",
            "level_claimed": {"category": c["level"], "text": c["text"], "design_ref": c["ref"]},
            "level_note": c["note"],
            "technique": c["technique"],
        })
    na = [{"property_id": k, "reason": v} for k, v in sorted(NOT_APPLICABLE.items())]
    for k, v in sorted(PENDING.items()):
        if k not in CHECKS:
            na.append({"property_id": k, "reason": v})
    na.sort(key=lambda x: x["property_id"])
    m = {
        "version": 1,
        "setup_cmd": "./check --setup",
        "hooks": {
            "guard": "cargo feature verif-hooks (cryptoxide/Cargo.toml, off by default)",
            "enable": "the simulator crate /verif/sim depends on cryptoxide by path with features=[\"verif-hooks\"]; every check runs `cargo build --offline` of /verif/sim, which recompiles /repo's working tree",
            "baseline_off_cmd": "cd /repo && cargo test --workspace --no-fail-fast --offline",
            "source_commits": HOOK_COMMITS,
            "add_only": True,
        },
        "engines": [{
            "name": "cxsim",
            "path": "/verif/sim",
            "serves_properties": sorted(CHECKS),
            "kind_free_text": "single-process deterministic simulator: seeded xoshiro256** scheduler over handles/operations/faults, executable reference models, catch_unwind observation of loud failures, ddmin shrinker, replay files; driver /verif/check builds it per build configuration and diffs transcripts across builds",
        }],
        "checks": checks,
        "not_applicable": na,
        "notes": "Default VERIF_SEED=1 (fixed so the unchanged tree is always checked on the same executions). exit 2 = harness error. Known findings: /verif/known_findings.json.",
    }
    with open("/verif/MANIFEST.json", "w") as f:
        json.dump(m, f, indent=1)
        f.write("\n")

if __name__ == "__main__":
    main()
