#!/bin/bash
# false-alarm sweep: every registered check (tier $1) under VERIF_SEED = $2..$3 on the unchanged tree; any rc != 0 is printed.
# meant for `vp run -- ./sweep_seeds.sh quick 2 40` (works in a snapshot: builds into ./target).
tier=${1:-quick}; from=${2:-2}; to=${3:-20}
cd "$(dirname "$0")"; mkdir -p tmp
# with `vp run --with-repo` the sweep builds the snapshot of /repo, so edits to /repo meanwhile cannot disturb it
[ -n "$VP_RUN_REPO" ] && export VERIF_REPO="$VP_RUN_REPO"
./check --setup >/dev/null 2>&1
bad=0
for seed in $(seq $from $to); do
  for p in $(python3 -c "import json; print(' '.join(c['property_id'] for c in json.load(open('MANIFEST.json'))['checks']))"); do
    [ -n "$ONLY" ] && [[ " $ONLY " != *" $p "* ]] && continue
    VERIF_SEED=$seed ./check $p $tier > tmp/sweep-$p-$seed.log 2>&1; rc=$?
    if [ $rc -ne 0 ]; then bad=1; echo "ALARM seed=$seed $p rc=$rc"; grep -E "^(VIOLATION|HARNESS)" tmp/sweep-$p-$seed.log | head -5; fi
  done
  echo "seed $seed done $(date +%T)"
done
echo "sweep finished bad=$bad"
exit $bad
