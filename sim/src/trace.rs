//! Trace = the schedule: an explicit list of concrete operations, plus per-run constants.
//! Replay executes the list, never the PRNG.

use crate::json::{self, J};
use crate::rng::fnv64;
use std::collections::{BTreeMap, BTreeSet};

#[derive(Clone, Debug, PartialEq, Eq)]
pub struct Op {
    /// handle the operation acts on
    pub h: u8,
    /// operation kind (index into the scenario's kind table)
    pub k: u8,
    /// a length (chunk, request, ...)
    pub len: u32,
    /// alignment offset of the data slice (0..31) or a secondary small argument
    pub off: u8,
    /// data seed of the bytes carried by the operation (see rng::data)
    pub seed: u64,
    /// free argument (seek target, key length, position, catalogue entry ...)
    pub arg: u64,
}

impl Op {
    pub fn new(h: u8, k: u8) -> Op {
        Op { h, k, len: 0, off: 0, seed: 0, arg: 0 }
    }
    pub fn len(mut self, l: usize) -> Op {
        self.len = l as u32;
        self
    }
    pub fn off(mut self, o: u8) -> Op {
        self.off = o;
        self
    }
    pub fn seed(mut self, s: u64) -> Op {
        self.seed = s;
        self
    }
    pub fn arg(mut self, a: u64) -> Op {
        self.arg = a;
        self
    }
}

#[derive(Clone, Debug, PartialEq, Eq)]
pub struct Trace {
    pub scenario: String,
    pub variant: String,
    pub params: Vec<(String, u64)>,
    pub ops: Vec<Op>,
}

impl Trace {
    pub fn new(scenario: &str, variant: &str) -> Trace {
        Trace { scenario: scenario.to_string(), variant: variant.to_string(), params: Vec::new(), ops: Vec::new() }
    }
    pub fn p(&self, name: &str) -> u64 {
        self.params.iter().find(|(k, _)| k == name).map(|(_, v)| *v).unwrap_or(0)
    }
    pub fn set_p(&mut self, name: &str, v: u64) {
        if let Some(e) = self.params.iter_mut().find(|(k, _)| k == name) {
            e.1 = v;
        } else {
            self.params.push((name.to_string(), v));
        }
    }
    pub fn hash(&self) -> u64 {
        let mut h = fnv64(self.variant.as_bytes());
        let mut mix = |v: u64| {
            h ^= v;
            h = h.wrapping_mul(0x100000001b3);
            h ^= h >> 29;
        };
        for (k, v) in &self.params {
            mix(fnv64(k.as_bytes()));
            mix(*v);
        }
        for o in &self.ops {
            mix(((o.h as u64) << 48) | ((o.k as u64) << 40) | ((o.off as u64) << 32) | o.len as u64);
            mix(o.seed);
            mix(o.arg);
        }
        h
    }

    pub fn to_json(&self, kinds: &[&str]) -> J {
        let ops: Vec<J> = self
            .ops
            .iter()
            .map(|o| {
                J::obj()
                    .set("h", J::U(o.h as u64))
                    .set("op", J::s(kinds.get(o.k as usize).copied().unwrap_or("?")))
                    .set("len", J::U(o.len as u64))
                    .set("off", J::U(o.off as u64))
                    .set("data_seed", J::U(o.seed))
                    .set("arg", J::U(o.arg))
            })
            .collect();
        J::obj()
            .set("scenario", J::s(&self.scenario))
            .set("variant", J::s(&self.variant))
            .set("params", J::O(self.params.iter().map(|(k, v)| (k.clone(), J::U(*v))).collect()))
            .set("trace", J::A(ops))
    }

    pub fn from_json(j: &J, kinds: &[&str]) -> Result<Trace, String> {
        let scenario = j.get("scenario").and_then(|x| x.as_str()).ok_or("scenario")?.to_string();
        let variant = j.get("variant").and_then(|x| x.as_str()).ok_or("variant")?.to_string();
        let mut params = Vec::new();
        if let Some(J::O(o)) = j.get("params") {
            for (k, v) in o {
                params.push((k.clone(), v.as_u64().ok_or("param value")?));
            }
        }
        let mut ops = Vec::new();
        for o in j.get("trace").and_then(|x| x.as_arr()).ok_or("trace")? {
            let name = o.get("op").and_then(|x| x.as_str()).ok_or("op")?;
            let k = kinds.iter().position(|x| *x == name).ok_or_else(|| format!("unknown op {}", name))? as u8;
            let g = |n: &str| o.get(n).and_then(|x| x.as_u64()).unwrap_or(0);
            ops.push(Op { h: g("h") as u8, k, len: g("len") as u32, off: g("off") as u8, seed: g("data_seed"), arg: g("arg") });
        }
        Ok(Trace { scenario, variant, params, ops })
    }
}

#[derive(Clone, Debug, PartialEq, Eq)]
pub struct Violation {
    /// violation class: digest-mismatch, stream-mismatch, tag-mismatch, unexpected-panic,
    /// missing-panic, accepted-corrupted, rejected-honest, result-changed, counter-invariant, ...
    pub kind: &'static str,
    /// index of the failing operation in the trace (ops.len() = end-of-run check)
    pub step: usize,
    pub expected: String,
    pub got: String,
    /// free text: which object / which oracle
    pub detail: String,
}

impl Violation {
    pub fn new(kind: &'static str, step: usize, expected: impl Into<String>, got: impl Into<String>, detail: impl Into<String>) -> Violation {
        Violation { kind, step, expected: expected.into(), got: got.into(), detail: detail.into() }
    }
    pub fn bytes(kind: &'static str, step: usize, expected: &[u8], got: &[u8], detail: impl Into<String>) -> Violation {
        Violation::new(kind, step, json::hex_short(expected), json::hex_short(got), detail)
    }
    pub fn to_json(&self) -> J {
        J::obj()
            .set("kind", J::s(self.kind))
            .set("step", J::U(self.step as u64))
            .set("expected", J::s(&self.expected))
            .set("got", J::s(&self.got))
            .set("detail", J::s(&self.detail))
    }
}

/// 128-bit FNV-style accumulator for transcripts (cross-build comparison)
#[derive(Clone)]
pub struct Digest128 {
    a: u64,
    b: u64,
}

impl Digest128 {
    pub fn new() -> Self {
        Digest128 { a: 0xcbf29ce484222325, b: 0x84222325cbf29ce4 }
    }
    #[inline]
    pub fn absorb(&mut self, data: &[u8]) {
        for x in data {
            self.a ^= *x as u64;
            self.a = self.a.wrapping_mul(0x100000001b3);
            self.b = (self.b ^ (*x as u64)).wrapping_mul(0x9E3779B97F4A7C15).rotate_left(23);
        }
        // length separator
        self.a ^= data.len() as u64;
        self.a = self.a.wrapping_mul(0x100000001b3);
        self.b = self.b.wrapping_add(self.a).rotate_left(17);
    }
    pub fn absorb_u64(&mut self, v: u64) {
        self.absorb(&v.to_le_bytes())
    }
    pub fn value(&self) -> (u64, u64) {
        (self.a, self.b)
    }
    pub fn hex(&self) -> String {
        format!("{:016x}{:016x}", self.a, self.b)
    }
}

/// What one execution reports back: counters, coverage, outputs.
pub struct Obs {
    /// fault kinds that actually fired, probes that were hit, op-kind counts
    pub stats: BTreeMap<&'static str, u64>,
    /// abstract transitions reached (scenario-defined encoding)
    pub cover: BTreeSet<u32>,
    /// digest of every byte the real code returned, in order
    pub transcript: Digest128,
    /// when set: one digest per op (used to locate a cross-build divergence)
    pub per_op: Option<Vec<String>>,
    cur_op: usize,
    /// real operations executed
    pub ops: u64,
    /// largest stream position / counter value reached ("simulated time" axis)
    pub max_pos: u64,
    /// count stats at all (off while shrinking)
    pub enabled: bool,
}

impl Obs {
    pub fn new() -> Obs {
        Obs { stats: BTreeMap::new(), cover: BTreeSet::new(), transcript: Digest128::new(), per_op: None, cur_op: 0, ops: 0, max_pos: 0, enabled: true }
    }
    pub fn quiet() -> Obs {
        let mut o = Obs::new();
        o.enabled = false;
        o
    }
    pub fn with_per_op() -> Obs {
        let mut o = Obs::new();
        o.per_op = Some(Vec::new());
        o
    }
    #[inline]
    pub fn hit(&mut self, name: &'static str) {
        if self.enabled {
            *self.stats.entry(name).or_insert(0) += 1;
        }
    }
    #[inline]
    pub fn add(&mut self, name: &'static str, n: u64) {
        if self.enabled {
            *self.stats.entry(name).or_insert(0) += n;
        }
    }
    #[inline]
    pub fn cov(&mut self, code: u32) {
        if self.enabled {
            self.cover.insert(code);
        }
    }
    #[inline]
    pub fn pos(&mut self, p: u64) {
        if p > self.max_pos {
            self.max_pos = p;
        }
    }
    /// mark the start of op `i` (per-op digests)
    pub fn begin_op(&mut self, i: usize) {
        self.cur_op = i;
        self.ops += 1;
    }
    /// record bytes the real code returned
    #[inline]
    pub fn out(&mut self, data: &[u8]) {
        self.transcript.absorb(data);
        if let Some(v) = self.per_op.as_mut() {
            let mut d = Digest128::new();
            d.absorb(data);
            v.push(format!("{}:{}", self.cur_op, d.hex()));
        }
    }
    pub fn out_flag(&mut self, tag: &str, v: bool) {
        let b = [v as u8];
        self.transcript.absorb(tag.as_bytes());
        self.transcript.absorb(&b);
        if let Some(p) = self.per_op.as_mut() {
            p.push(format!("{}:{}={}", self.cur_op, tag, v));
        }
    }
}

#[derive(Clone, Copy, PartialEq, Eq, Debug)]
pub enum Tier {
    Quick,
    Thorough,
}

/// A scenario: generator + executor (+ model inside the executor).
pub trait Scenario: Sync {
    fn name(&self) -> &'static str;
    /// op kind names, indexed by Op::k
    fn kinds(&self) -> &'static [&'static str];
    /// a run is non-trivial when it has >= 2 ops of which at least one is of such a kind
    fn nontrivial_kind(&self, k: u8) -> bool;
    /// the stated non-triviality rule (default: >= 2 ops, one of a non-trivial kind)
    fn nontrivial(&self, t: &Trace) -> bool {
        t.ops.len() >= 2 && t.ops.iter().any(|o| self.nontrivial_kind(o.k))
    }
    /// number of stratified (enumerated) runs at the beginning of the index space
    fn stratified(&self) -> u64 {
        0
    }
    /// build the trace for run `idx` (idx < stratified(): enumerated; else drawn from rng)
    fn generate(&self, rng: &mut crate::rng::Rng, idx: u64, tier: Tier) -> Trace;
    /// execute the trace against the real code and the model
    fn execute(&self, t: &Trace, obs: &mut Obs) -> Result<(), Violation>;
    /// name of the known-finding predicate this (minimised) failing trace matches, if any
    fn classify(&self, _t: &Trace, _v: &Violation) -> Option<&'static str> {
        None
    }
    /// which components ran real code / which are stubs (for the evidence file)
    fn real_vs_stub(&self) -> &'static str;
    /// explanation of the coverage code space (for the evidence file)
    fn cover_rule(&self) -> &'static str {
        ""
    }
}
