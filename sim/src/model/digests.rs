//! Independent implementations of the standard digests, written from the specifications (FIPS 180-4, FIPS 202 and the
//! original Keccak padding, RIPEMD-160 (Dobbertin/Bosselaers/Preneel), RFC 7693), used as "H" by the RFC 2104 model of
//! C08 so that the HMAC oracle does not rest on the library's own hash code. Deliberately plain: the whole padded message
//! is materialised and compressed block by block; nothing is buffered, nothing is shared with the library.

pub use crate::model::sha512::sha512_with;

// ------------------------------------------------------------------ SHA-1 / SHA-256 family (32-bit words, 64-byte blocks)

fn md_pad_be(msg: &[u8]) -> Vec<u8> {
    let mut m = msg.to_vec();
    m.push(0x80);
    while m.len() % 64 != 56 {
        m.push(0);
    }
    m.extend_from_slice(&((msg.len() as u64).wrapping_mul(8)).to_be_bytes());
    m
}

pub fn sha1(msg: &[u8]) -> Vec<u8> {
    let mut h: [u32; 5] = [0x67452301, 0xefcdab89, 0x98badcfe, 0x10325476, 0xc3d2e1f0];
    for block in md_pad_be(msg).chunks(64) {
        let mut w = [0u32; 80];
        for t in 0..16 {
            w[t] = u32::from_be_bytes([block[4 * t], block[4 * t + 1], block[4 * t + 2], block[4 * t + 3]]);
        }
        for t in 16..80 {
            w[t] = (w[t - 3] ^ w[t - 8] ^ w[t - 14] ^ w[t - 16]).rotate_left(1);
        }
        let (mut a, mut b, mut c, mut d, mut e) = (h[0], h[1], h[2], h[3], h[4]);
        for t in 0..80 {
            let (f, k) = match t / 20 {
                0 => ((b & c) | (!b & d), 0x5a827999u32),
                1 => (b ^ c ^ d, 0x6ed9eba1),
                2 => ((b & c) | (b & d) | (c & d), 0x8f1bbcdc),
                _ => (b ^ c ^ d, 0xca62c1d6),
            };
            let tmp = a.rotate_left(5).wrapping_add(f).wrapping_add(e).wrapping_add(k).wrapping_add(w[t]);
            e = d;
            d = c;
            c = b.rotate_left(30);
            b = a;
            a = tmp;
        }
        for (x, y) in h.iter_mut().zip([a, b, c, d, e]) {
            *x = x.wrapping_add(y);
        }
    }
    h.iter().flat_map(|v| v.to_be_bytes()).collect()
}

const K256: [u32; 64] = [
    0x428a2f98, 0x71374491, 0xb5c0fbcf, 0xe9b5dba5, 0x3956c25b, 0x59f111f1, 0x923f82a4, 0xab1c5ed5, 0xd807aa98, 0x12835b01, 0x243185be, 0x550c7dc3, 0x72be5d74, 0x80deb1fe,
    0x9bdc06a7, 0xc19bf174, 0xe49b69c1, 0xefbe4786, 0x0fc19dc6, 0x240ca1cc, 0x2de92c6f, 0x4a7484aa, 0x5cb0a9dc, 0x76f988da, 0x983e5152, 0xa831c66d, 0xb00327c8, 0xbf597fc7,
    0xc6e00bf3, 0xd5a79147, 0x06ca6351, 0x14292967, 0x27b70a85, 0x2e1b2138, 0x4d2c6dfc, 0x53380d13, 0x650a7354, 0x766a0abb, 0x81c2c92e, 0x92722c85, 0xa2bfe8a1, 0xa81a664b,
    0xc24b8b70, 0xc76c51a3, 0xd192e819, 0xd6990624, 0xf40e3585, 0x106aa070, 0x19a4c116, 0x1e376c08, 0x2748774c, 0x34b0bcb5, 0x391c0cb3, 0x4ed8aa4a, 0x5b9cca4f, 0x682e6ff3,
    0x748f82ee, 0x78a5636f, 0x84c87814, 0x8cc70208, 0x90befffa, 0xa4506ceb, 0xbef9a3f7, 0xc67178f2,
];

fn sha256_with(iv: [u32; 8], outlen: usize, msg: &[u8]) -> Vec<u8> {
    let mut h = iv;
    for block in md_pad_be(msg).chunks(64) {
        let mut w = [0u32; 64];
        for t in 0..16 {
            w[t] = u32::from_be_bytes([block[4 * t], block[4 * t + 1], block[4 * t + 2], block[4 * t + 3]]);
        }
        for t in 16..64 {
            let s0 = w[t - 15].rotate_right(7) ^ w[t - 15].rotate_right(18) ^ (w[t - 15] >> 3);
            let s1 = w[t - 2].rotate_right(17) ^ w[t - 2].rotate_right(19) ^ (w[t - 2] >> 10);
            w[t] = w[t - 16].wrapping_add(s0).wrapping_add(w[t - 7]).wrapping_add(s1);
        }
        let mut v = h;
        for t in 0..64 {
            let s1 = v[4].rotate_right(6) ^ v[4].rotate_right(11) ^ v[4].rotate_right(25);
            let ch = (v[4] & v[5]) ^ (!v[4] & v[6]);
            let t1 = v[7].wrapping_add(s1).wrapping_add(ch).wrapping_add(K256[t]).wrapping_add(w[t]);
            let s0 = v[0].rotate_right(2) ^ v[0].rotate_right(13) ^ v[0].rotate_right(22);
            let maj = (v[0] & v[1]) ^ (v[0] & v[2]) ^ (v[1] & v[2]);
            let t2 = s0.wrapping_add(maj);
            v = [t1.wrapping_add(t2), v[0], v[1], v[2], v[3].wrapping_add(t1), v[4], v[5], v[6]];
        }
        for (x, y) in h.iter_mut().zip(v) {
            *x = x.wrapping_add(y);
        }
    }
    let mut out: Vec<u8> = h.iter().flat_map(|v| v.to_be_bytes()).collect();
    out.truncate(outlen);
    out
}

pub fn sha256(msg: &[u8]) -> Vec<u8> {
    sha256_with([0x6a09e667, 0xbb67ae85, 0x3c6ef372, 0xa54ff53a, 0x510e527f, 0x9b05688c, 0x1f83d9ab, 0x5be0cd19], 32, msg)
}
pub fn sha224(msg: &[u8]) -> Vec<u8> {
    sha256_with([0xc1059ed8, 0x367cd507, 0x3070dd17, 0xf70e5939, 0xffc00b31, 0x68581511, 0x64f98fa7, 0xbefa4fa4], 28, msg)
}

// ------------------------------------------------------------------ SHA-512 family (IVs from FIPS 180-4 §5.3.4 - §5.3.6)

pub fn sha384(msg: &[u8]) -> Vec<u8> {
    sha512_with(
        [0xcbbb9d5dc1059ed8, 0x629a292a367cd507, 0x9159015a3070dd17, 0x152fecd8f70e5939, 0x67332667ffc00b31, 0x8eb44a8768581511, 0xdb0c2e0d64f98fa7, 0x47b5481dbefa4fa4],
        msg,
    )[..48]
        .to_vec()
}
pub fn sha512(msg: &[u8]) -> Vec<u8> {
    crate::model::sha512::sha512(msg).to_vec()
}
/// SHA-512/t initial value, generated as FIPS 180-4 §5.3.6 prescribes: SHA-512 started from (IV xor a5a5..a5) over the
/// ASCII string "SHA-512/t"
fn sha512_t_iv(t: usize) -> [u64; 8] {
    let base: [u64; 8] = [0x6a09e667f3bcc908, 0xbb67ae8584caa73b, 0x3c6ef372fe94f82b, 0xa54ff53a5f1d36f1, 0x510e527fade682d1, 0x9b05688c2b3e6c1f, 0x1f83d9abfb41bd6b, 0x5be0cd19137e2179];
    let mut iv2 = base;
    for v in iv2.iter_mut() {
        *v ^= 0xa5a5a5a5a5a5a5a5;
    }
    let d = sha512_with(iv2, format!("SHA-512/{}", t).as_bytes());
    let mut iv = [0u64; 8];
    for i in 0..8 {
        let mut w = [0u8; 8];
        w.copy_from_slice(&d[8 * i..8 * i + 8]);
        iv[i] = u64::from_be_bytes(w);
    }
    iv
}
pub fn sha512_224(msg: &[u8]) -> Vec<u8> {
    sha512_with(sha512_t_iv(224), msg)[..28].to_vec()
}
pub fn sha512_256(msg: &[u8]) -> Vec<u8> {
    sha512_with(sha512_t_iv(256), msg)[..32].to_vec()
}

// ------------------------------------------------------------------ Keccak-f[1600] sponge: SHA-3 (suffix 0x06) and original Keccak (0x01)

const RC: [u64; 24] = [
    0x0000000000000001, 0x0000000000008082, 0x800000000000808a, 0x8000000080008000, 0x000000000000808b, 0x0000000080000001, 0x8000000080008081, 0x8000000000008009,
    0x000000000000008a, 0x0000000000000088, 0x0000000080008009, 0x000000008000000a, 0x000000008000808b, 0x800000000000008b, 0x8000000000008089, 0x8000000000008003,
    0x8000000000008002, 0x8000000000000080, 0x000000000000800a, 0x800000008000000a, 0x8000000080008081, 0x8000000000008080, 0x0000000080000001, 0x8000000080008008,
];

fn keccak_f(a: &mut [u64; 25]) {
    // lanes indexed a[x + 5*y]
    for round in 0..24 {
        // theta
        let mut c = [0u64; 5];
        for x in 0..5 {
            c[x] = a[x] ^ a[x + 5] ^ a[x + 10] ^ a[x + 15] ^ a[x + 20];
        }
        for x in 0..5 {
            let d = c[(x + 4) % 5] ^ c[(x + 1) % 5].rotate_left(1);
            for y in 0..5 {
                a[x + 5 * y] ^= d;
            }
        }
        // rho and pi, walking the (x, y) -> (y, 2x + 3y) orbit with triangular-number offsets
        let mut b = [0u64; 25];
        b[0] = a[0];
        let (mut x, mut y) = (1usize, 0usize);
        for t in 0..24u32 {
            let rot = ((t + 1) * (t + 2) / 2) % 64;
            let (nx, ny) = (y, (2 * x + 3 * y) % 5);
            b[nx + 5 * ny] = a[x + 5 * y].rotate_left(rot);
            x = nx;
            y = ny;
        }
        // chi
        for y in 0..5 {
            for x in 0..5 {
                a[x + 5 * y] = b[x + 5 * y] ^ (!b[(x + 1) % 5 + 5 * y] & b[(x + 2) % 5 + 5 * y]);
            }
        }
        // iota
        a[0] ^= RC[round];
    }
}

fn sponge(rate: usize, suffix: u8, outlen: usize, msg: &[u8]) -> Vec<u8> {
    let mut m = msg.to_vec();
    m.push(suffix);
    while m.len() % rate != 0 {
        m.push(0);
    }
    let last = m.len() - 1;
    m[last] |= 0x80;
    let mut a = [0u64; 25];
    for block in m.chunks(rate) {
        for (i, lane) in block.chunks(8).enumerate() {
            let mut l = [0u8; 8];
            l.copy_from_slice(lane);
            a[i] ^= u64::from_le_bytes(l);
        }
        keccak_f(&mut a);
    }
    let mut out: Vec<u8> = a.iter().flat_map(|v| v.to_le_bytes()).collect();
    out.truncate(outlen); // every supported output fits in one rate
    out
}

pub fn sha3(bits: usize, msg: &[u8]) -> Vec<u8> {
    sponge(200 - 2 * bits / 8, 0x06, bits / 8, msg)
}
pub fn keccak(bits: usize, msg: &[u8]) -> Vec<u8> {
    sponge(200 - 2 * bits / 8, 0x01, bits / 8, msg)
}

// ------------------------------------------------------------------ RIPEMD-160

pub fn ripemd160(msg: &[u8]) -> Vec<u8> {
    const R1: [usize; 80] = [
        0, 1, 2, 3, 4, 5, 6, 7, 8, 9, 10, 11, 12, 13, 14, 15, 7, 4, 13, 1, 10, 6, 15, 3, 12, 0, 9, 5, 2, 14, 11, 8, 3, 10, 14, 4, 9, 15, 8, 1, 2, 7, 0, 6, 13, 11, 5, 12, 1, 9, 11, 10, 0, 8, 12, 4,
        13, 3, 7, 15, 14, 5, 6, 2, 4, 0, 5, 9, 7, 12, 2, 10, 14, 1, 3, 8, 11, 6, 15, 13,
    ];
    const R2: [usize; 80] = [
        5, 14, 7, 0, 9, 2, 11, 4, 13, 6, 15, 8, 1, 10, 3, 12, 6, 11, 3, 7, 0, 13, 5, 10, 14, 15, 8, 12, 4, 9, 1, 2, 15, 5, 1, 3, 7, 14, 6, 9, 11, 8, 12, 2, 10, 0, 4, 13, 8, 6, 4, 1, 3, 11, 15, 0, 5,
        12, 2, 13, 9, 7, 10, 14, 12, 15, 10, 4, 1, 5, 8, 7, 6, 2, 13, 14, 0, 3, 9, 11,
    ];
    const S1: [u32; 80] = [
        11, 14, 15, 12, 5, 8, 7, 9, 11, 13, 14, 15, 6, 7, 9, 8, 7, 6, 8, 13, 11, 9, 7, 15, 7, 12, 15, 9, 11, 7, 13, 12, 11, 13, 6, 7, 14, 9, 13, 15, 14, 8, 13, 6, 5, 12, 7, 5, 11, 12, 14, 15, 14,
        15, 9, 8, 9, 14, 5, 6, 8, 6, 5, 12, 9, 15, 5, 11, 6, 8, 13, 12, 5, 12, 13, 14, 11, 8, 5, 6,
    ];
    const S2: [u32; 80] = [
        8, 9, 9, 11, 13, 15, 15, 5, 7, 7, 8, 11, 14, 14, 12, 6, 9, 13, 15, 7, 12, 8, 9, 11, 7, 7, 12, 7, 6, 15, 13, 11, 9, 7, 15, 11, 8, 6, 6, 14, 12, 13, 5, 14, 13, 13, 7, 5, 15, 5, 8, 11, 14, 14,
        6, 14, 6, 9, 12, 9, 12, 5, 15, 8, 8, 5, 12, 9, 12, 5, 14, 6, 8, 13, 6, 5, 15, 13, 11, 11,
    ];
    const K1: [u32; 5] = [0, 0x5a827999, 0x6ed9eba1, 0x8f1bbcdc, 0xa953fd4e];
    const K2: [u32; 5] = [0x50a28be6, 0x5c4dd124, 0x6d703ef3, 0x7a6d76e9, 0];
    fn f(j: usize, x: u32, y: u32, z: u32) -> u32 {
        match j / 16 {
            0 => x ^ y ^ z,
            1 => (x & y) | (!x & z),
            2 => (x | !y) ^ z,
            3 => (x & z) | (y & !z),
            _ => x ^ (y | !z),
        }
    }
    // little-endian Merkle-Damgard padding
    let mut m = msg.to_vec();
    m.push(0x80);
    while m.len() % 64 != 56 {
        m.push(0);
    }
    m.extend_from_slice(&((msg.len() as u64).wrapping_mul(8)).to_le_bytes());
    let mut h: [u32; 5] = [0x67452301, 0xefcdab89, 0x98badcfe, 0x10325476, 0xc3d2e1f0];
    for block in m.chunks(64) {
        let mut x = [0u32; 16];
        for t in 0..16 {
            x[t] = u32::from_le_bytes([block[4 * t], block[4 * t + 1], block[4 * t + 2], block[4 * t + 3]]);
        }
        let (mut a1, mut b1, mut c1, mut d1, mut e1) = (h[0], h[1], h[2], h[3], h[4]);
        let (mut a2, mut b2, mut c2, mut d2, mut e2) = (h[0], h[1], h[2], h[3], h[4]);
        for j in 0..80 {
            let t = a1.wrapping_add(f(j, b1, c1, d1)).wrapping_add(x[R1[j]]).wrapping_add(K1[j / 16]).rotate_left(S1[j]).wrapping_add(e1);
            a1 = e1;
            e1 = d1;
            d1 = c1.rotate_left(10);
            c1 = b1;
            b1 = t;
            let t = a2.wrapping_add(f(79 - j, b2, c2, d2)).wrapping_add(x[R2[j]]).wrapping_add(K2[j / 16]).rotate_left(S2[j]).wrapping_add(e2);
            a2 = e2;
            e2 = d2;
            d2 = c2.rotate_left(10);
            c2 = b2;
            b2 = t;
        }
        let t = h[1].wrapping_add(c1).wrapping_add(d2);
        h[1] = h[2].wrapping_add(d1).wrapping_add(e2);
        h[2] = h[3].wrapping_add(e1).wrapping_add(a2);
        h[3] = h[4].wrapping_add(a1).wrapping_add(b2);
        h[4] = h[0].wrapping_add(b1).wrapping_add(c2);
        h[0] = t;
    }
    h.iter().flat_map(|v| v.to_le_bytes()).collect()
}

// ------------------------------------------------------------------ BLAKE2b / BLAKE2s (RFC 7693), unkeyed, sequential mode

const SIGMA: [[usize; 16]; 10] = [
    [0, 1, 2, 3, 4, 5, 6, 7, 8, 9, 10, 11, 12, 13, 14, 15],
    [14, 10, 4, 8, 9, 15, 13, 6, 1, 12, 0, 2, 11, 7, 5, 3],
    [11, 8, 12, 0, 5, 2, 15, 13, 10, 14, 3, 6, 7, 1, 9, 4],
    [7, 9, 3, 1, 13, 12, 11, 14, 2, 6, 5, 10, 4, 0, 15, 8],
    [9, 0, 5, 7, 2, 4, 10, 15, 14, 1, 11, 12, 6, 8, 3, 13],
    [2, 12, 6, 10, 0, 11, 8, 3, 4, 13, 7, 5, 15, 14, 1, 9],
    [12, 5, 1, 15, 14, 13, 4, 10, 0, 7, 6, 3, 9, 2, 8, 11],
    [13, 11, 7, 14, 12, 1, 3, 9, 5, 0, 15, 4, 8, 6, 2, 10],
    [6, 15, 14, 9, 11, 3, 0, 8, 12, 2, 13, 7, 1, 4, 10, 5],
    [10, 2, 8, 4, 7, 6, 1, 5, 15, 11, 9, 14, 3, 12, 13, 0],
];

const IV64: [u64; 8] = [0x6a09e667f3bcc908, 0xbb67ae8584caa73b, 0x3c6ef372fe94f82b, 0xa54ff53a5f1d36f1, 0x510e527fade682d1, 0x9b05688c2b3e6c1f, 0x1f83d9abfb41bd6b, 0x5be0cd19137e2179];
const IV32: [u32; 8] = [0x6a09e667, 0xbb67ae85, 0x3c6ef372, 0xa54ff53a, 0x510e527f, 0x9b05688c, 0x1f83d9ab, 0x5be0cd19];

pub fn blake2b(outlen: usize, msg: &[u8]) -> Vec<u8> {
    let mut h = IV64;
    h[0] ^= 0x0101_0000 ^ outlen as u64;
    let nblocks = if msg.is_empty() { 1 } else { (msg.len() + 127) / 128 };
    for i in 0..nblocks {
        let start = i * 128;
        let end = (start + 128).min(msg.len());
        let mut block = [0u8; 128];
        block[..end - start].copy_from_slice(&msg[start..end]);
        let last = i == nblocks - 1;
        let t = end as u128;
        let mut m = [0u64; 16];
        for j in 0..16 {
            let mut l = [0u8; 8];
            l.copy_from_slice(&block[8 * j..8 * j + 8]);
            m[j] = u64::from_le_bytes(l);
        }
        let mut v = [0u64; 16];
        v[..8].copy_from_slice(&h);
        v[8..].copy_from_slice(&IV64);
        v[12] ^= t as u64;
        v[13] ^= (t >> 64) as u64;
        if last {
            v[14] = !v[14];
        }
        for r in 0..12 {
            let s = &SIGMA[r % 10];
            let mut g = |a: usize, b: usize, c: usize, d: usize, x: u64, y: u64| {
                v[a] = v[a].wrapping_add(v[b]).wrapping_add(x);
                v[d] = (v[d] ^ v[a]).rotate_right(32);
                v[c] = v[c].wrapping_add(v[d]);
                v[b] = (v[b] ^ v[c]).rotate_right(24);
                v[a] = v[a].wrapping_add(v[b]).wrapping_add(y);
                v[d] = (v[d] ^ v[a]).rotate_right(16);
                v[c] = v[c].wrapping_add(v[d]);
                v[b] = (v[b] ^ v[c]).rotate_right(63);
            };
            g(0, 4, 8, 12, m[s[0]], m[s[1]]);
            g(1, 5, 9, 13, m[s[2]], m[s[3]]);
            g(2, 6, 10, 14, m[s[4]], m[s[5]]);
            g(3, 7, 11, 15, m[s[6]], m[s[7]]);
            g(0, 5, 10, 15, m[s[8]], m[s[9]]);
            g(1, 6, 11, 12, m[s[10]], m[s[11]]);
            g(2, 7, 8, 13, m[s[12]], m[s[13]]);
            g(3, 4, 9, 14, m[s[14]], m[s[15]]);
        }
        for j in 0..8 {
            h[j] ^= v[j] ^ v[j + 8];
        }
    }
    let mut out: Vec<u8> = h.iter().flat_map(|v| v.to_le_bytes()).collect();
    out.truncate(outlen);
    out
}

pub fn blake2s(outlen: usize, msg: &[u8]) -> Vec<u8> {
    let mut h = IV32;
    h[0] ^= 0x0101_0000 ^ outlen as u32;
    let nblocks = if msg.is_empty() { 1 } else { (msg.len() + 63) / 64 };
    for i in 0..nblocks {
        let start = i * 64;
        let end = (start + 64).min(msg.len());
        let mut block = [0u8; 64];
        block[..end - start].copy_from_slice(&msg[start..end]);
        let last = i == nblocks - 1;
        let t = end as u64;
        let mut m = [0u32; 16];
        for j in 0..16 {
            m[j] = u32::from_le_bytes([block[4 * j], block[4 * j + 1], block[4 * j + 2], block[4 * j + 3]]);
        }
        let mut v = [0u32; 16];
        v[..8].copy_from_slice(&h);
        v[8..].copy_from_slice(&IV32);
        v[12] ^= t as u32;
        v[13] ^= (t >> 32) as u32;
        if last {
            v[14] = !v[14];
        }
        for r in 0..10 {
            let s = &SIGMA[r];
            let mut g = |a: usize, b: usize, c: usize, d: usize, x: u32, y: u32| {
                v[a] = v[a].wrapping_add(v[b]).wrapping_add(x);
                v[d] = (v[d] ^ v[a]).rotate_right(16);
                v[c] = v[c].wrapping_add(v[d]);
                v[b] = (v[b] ^ v[c]).rotate_right(12);
                v[a] = v[a].wrapping_add(v[b]).wrapping_add(y);
                v[d] = (v[d] ^ v[a]).rotate_right(8);
                v[c] = v[c].wrapping_add(v[d]);
                v[b] = (v[b] ^ v[c]).rotate_right(7);
            };
            g(0, 4, 8, 12, m[s[0]], m[s[1]]);
            g(1, 5, 9, 13, m[s[2]], m[s[3]]);
            g(2, 6, 10, 14, m[s[4]], m[s[5]]);
            g(3, 7, 11, 15, m[s[6]], m[s[7]]);
            g(0, 5, 10, 15, m[s[8]], m[s[9]]);
            g(1, 6, 11, 12, m[s[10]], m[s[11]]);
            g(2, 7, 8, 13, m[s[12]], m[s[13]]);
            g(3, 4, 9, 14, m[s[14]], m[s[15]]);
        }
        for j in 0..8 {
            h[j] ^= v[j] ^ v[j + 8];
        }
    }
    let mut out: Vec<u8> = h.iter().flat_map(|v| v.to_le_bytes()).collect();
    out.truncate(outlen);
    out
}

/// the standard digest named like the one-call functions of scn::hashctx (`outlen` only for the BLAKE2 pair)
pub fn standard(name: &str, outlen: usize, msg: &[u8]) -> Vec<u8> {
    match name {
        "sha1" => sha1(msg),
        "sha224" => sha224(msg),
        "sha256" => sha256(msg),
        "sha384" => sha384(msg),
        "sha512" => sha512(msg),
        "sha512_224" => sha512_224(msg),
        "sha512_256" => sha512_256(msg),
        "sha3_224" => sha3(224, msg),
        "sha3_256" => sha3(256, msg),
        "sha3_384" => sha3(384, msg),
        "sha3_512" => sha3(512, msg),
        "keccak224" => keccak(224, msg),
        "keccak256" => keccak(256, msg),
        "keccak384" => keccak(384, msg),
        "keccak512" => keccak(512, msg),
        "ripemd160" => ripemd160(msg),
        "blake2b_dyn" => blake2b(outlen, msg),
        "blake2s_dyn" => blake2s(outlen, msg),
        other => panic!("no standard model for digest {}", other),
    }
}

#[cfg(test)]
mod tests {
    use super::*;
    fn hex(b: &[u8]) -> String {
        b.iter().map(|x| format!("{:02x}", x)).collect()
    }
    #[test]
    fn published_vectors() {
        assert_eq!(hex(&sha1(b"abc")), "a9993e364706816aba3e25717850c26c9cd0d89d");
        assert_eq!(hex(&sha256(b"abc")), "ba7816bf8f01cfea414140de5dae2223b00361a396177a9cb410ff61f20015ad");
        assert_eq!(hex(&sha224(b"abc")), "23097d223405d8228642a477bda255b32aadbce4bda0b3f7e36c9da7");
        assert_eq!(hex(&sha384(b"abc")), "cb00753f45a35e8bb5a03d699ac65007272c32ab0eded1631a8b605a43ff5bed8086072ba1e7cc2358baeca134c825a7");
        assert_eq!(hex(&sha512_224(b"abc")), "4634270f707b6a54daae7530460842e20e37ed265ceee9a43e8924aa");
        assert_eq!(hex(&sha512_256(b"abc")), "53048e2681941ef99b2e29b76b4c7dabe4c2d0c634fc6d46e0e2f13107e7af23");
        assert_eq!(hex(&sha3(256, b"")), "a7ffc6f8bf1ed76651c14756a061d662f580ff4de43b49fa82d80a4b80f8434a");
        assert_eq!(hex(&sha3(224, b"abc")), "e642824c3f8cf24ad09234ee7d3c766fc9a3a5168d0c94ad73b46fdf");
        assert_eq!(hex(&keccak(256, b"")), "c5d2460186f7233c927e7db2dcc703c0e500b653ca82273b7bfad8045d85a470");
        assert_eq!(hex(&ripemd160(b"abc")), "8eb208f7e05d987a9b044a8e98c6b087f15a0bfc");
        assert_eq!(hex(&ripemd160(b"")), "9c1185a5c5e9fc54612808977ee8f548b2258d31");
        assert_eq!(
            hex(&blake2b(64, b"abc")),
            "ba80a53f981c4d0d6a2797b69f12f6e94c212f14685ac4b74b12bb6fdbffa2d17d87c5392aab792dc252d5de4533cc9518d38aa8dbf1925ab92386edd4009923"
        );
        assert_eq!(hex(&blake2s(32, b"abc")), "508c5e8c327c14e2e1a72ba34eeb452f37458b209ed63a294d999b4c86675982");
    }
    #[test]
    fn agree_with_the_library_on_the_unchanged_tree() {
        use crate::scn::hashctx::oneshot;
        for name in [
            "sha1", "sha224", "sha256", "sha384", "sha512", "sha512_224", "sha512_256", "sha3_224", "sha3_256", "sha3_384", "sha3_512", "keccak224", "keccak256", "keccak384", "keccak512",
            "ripemd160",
        ] {
            for n in 0..300usize {
                let m: Vec<u8> = (0..n).map(|i| (i * 11 + 5) as u8).collect();
                assert_eq!(standard(name, 0, &m), oneshot(name, 0, &[], &m), "{} len {}", name, n);
            }
        }
        for outlen in [1usize, 20, 32, 33, 64] {
            for n in 0..300usize {
                let m: Vec<u8> = (0..n).map(|i| (i * 13 + 1) as u8).collect();
                assert_eq!(blake2b(outlen, &m), oneshot("blake2b_dyn", outlen, &[], &m), "blake2b/{} len {}", outlen, n);
                if outlen <= 32 {
                    assert_eq!(blake2s(outlen, &m), oneshot("blake2s_dyn", outlen, &[], &m), "blake2s/{} len {}", outlen, n);
                }
            }
        }
    }
}
