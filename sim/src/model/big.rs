//! Tiny big-integer helpers for the Ed25519 channel scenario (group order arithmetic only).

/// group order L = 2^252 + 27742317777372353535851937790883648493, little-endian
pub const L: [u8; 32] = [
    0xed, 0xd3, 0xf5, 0x5c, 0x1a, 0x63, 0x12, 0x58, 0xd6, 0x9c, 0xf7, 0xa2, 0xde, 0xf9, 0xde, 0x14, 0, 0, 0, 0, 0, 0, 0, 0, 0, 0, 0, 0, 0, 0, 0, 0x10,
];

fn ge(a: &[u8], b: &[u8]) -> bool {
    // little-endian, equal length
    for i in (0..a.len()).rev() {
        if a[i] != b[i] {
            return a[i] > b[i];
        }
    }
    true
}

fn sub_in_place(a: &mut [u8], b: &[u8]) {
    let mut borrow = 0i16;
    for i in 0..a.len() {
        let bi = if i < b.len() { b[i] as i16 } else { 0 };
        let mut t = a[i] as i16 - bi - borrow;
        if t < 0 {
            t += 256;
            borrow = 1;
        } else {
            borrow = 0;
        }
        a[i] = t as u8;
    }
}

/// h (little-endian, any length) modulo L, by shift-and-subtract
pub fn mod_l(h: &[u8]) -> [u8; 32] {
    let mut r = [0u8; 33];
    let mut lext = [0u8; 33];
    lext[..32].copy_from_slice(&L);
    for bit in (0..h.len() * 8).rev() {
        // r = r*2 + bit
        let mut carry = (h[bit / 8] >> (bit % 8)) & 1;
        for x in r.iter_mut() {
            let n = (*x >> 7) & 1;
            *x = (*x << 1) | carry;
            carry = n;
        }
        if ge(&r, &lext) {
            sub_in_place(&mut r, &lext);
        }
    }
    let mut out = [0u8; 32];
    out.copy_from_slice(&r[..32]);
    out
}

/// s + k*L if it fits in 256 bits
pub fn add_kl(s: &[u8; 32], k: u32) -> Option<[u8; 32]> {
    let mut out = [0u8; 32];
    let mut carry: u64 = 0;
    for i in 0..32 {
        let t = s[i] as u64 + (L[i] as u64) * (k as u64) + carry;
        out[i] = t as u8;
        carry = t >> 8;
    }
    if carry != 0 {
        None
    } else {
        Some(out)
    }
}

/// boundary family for scalars: base + 2^k - e (mod 2^256) with base in {0, L, 2^252, 2L, 8L}, k in 0..=255,
/// e in {0, 1, 2}. The group order is 2^252 + c with c < 2^125, so limbs 2..3 (bits 125..251) of L are zero:
/// comparisons and borrows that mishandle that zero region only show for values like L + 2^200 or 2^252 + 2^240.
pub fn boundary_scalar(sel: u64) -> [u8; 32] {
    let base_sel = sel % 5;
    let k = ((sel / 5) % 256) as usize;
    let e = ((sel / (5 * 256)) % 3) as u8;
    let mut v: [u8; 33] = [0; 33];
    match base_sel {
        0 => {}
        1 => v[..32].copy_from_slice(&L),
        2 => v[31] = 0x10,
        3 => v[..32].copy_from_slice(&add_kl(&[0u8; 32], 2).unwrap()),
        _ => v[..32].copy_from_slice(&add_kl(&[0u8; 32], 8).unwrap()),
    }
    // + 2^k
    let mut carry = 1u16 << (k % 8);
    let mut i = k / 8;
    while carry != 0 && i < 33 {
        let t = v[i] as u16 + carry;
        v[i] = t as u8;
        carry = t >> 8;
        i += 1;
    }
    // - e
    let mut borrow = e as i16;
    let mut i = 0;
    while borrow != 0 && i < 33 {
        let t = v[i] as i16 - borrow;
        if t < 0 {
            v[i] = (t + 256) as u8;
            borrow = 1;
        } else {
            v[i] = t as u8;
            borrow = 0;
        }
        i += 1;
    }
    let mut out = [0u8; 32];
    out.copy_from_slice(&v[..32]);
    out
}

pub fn lt_l(s: &[u8; 32]) -> bool {
    for i in (0..32).rev() {
        if s[i] != L[i] {
            return s[i] < L[i];
        }
    }
    false
}

#[cfg(test)]
mod tests {
    use super::*;
    #[test]
    fn reduce_l() {
        assert_eq!(mod_l(&L), [0u8; 32]);
        let mut lp1 = L;
        lp1[0] += 1;
        let mut one = [0u8; 32];
        one[0] = 1;
        assert_eq!(mod_l(&lp1), one);
        // 2^256 mod L: check (2^256 mod L) + something consistent: 16*L = 2^256 + 16*c  => 2^256 mod L = L - 16*c mod L
        let mut two256 = [0u8; 33];
        two256[32] = 1;
        let r = mod_l(&two256);
        // r + 16*c == L  where c = L - 2^252
        let mut c16 = [0u8; 32];
        let mut carry = 0u32;
        for i in 0..16 {
            let t = (L[i] as u32) * 16 + carry;
            c16[i] = t as u8;
            carry = t >> 8;
        }
        c16[16] = carry as u8;
        let mut sum = [0u8; 32];
        let mut cy = 0u16;
        for i in 0..32 {
            let t = r[i] as u16 + c16[i] as u16 + cy;
            sum[i] = t as u8;
            cy = t >> 8;
        }
        assert_eq!(sum, L);
    }
    #[test]
    fn add() {
        let z = [0u8; 32];
        assert_eq!(add_kl(&z, 1), Some(L));
        assert!(add_kl(&z, 15).is_some());
        assert!(add_kl(&z, 16).is_none());
    }
}

// ------------------------------------------------------------------ multiples of L with a saturated window
//
// Reductions modulo L (Barrett, or the ref10 fold) subtract a multiple q*L from the input limb by limb. Their borrow and
// carry chains are only stressed when q*L itself has a limb that is all ones (or all zeros) while a borrow arrives from
// below - about 2^-56 per random input for 56-bit limbs. This family constructs such inputs for ANY limb layout:
// pick a bit window [p, p+w), pick A with that window saturated, solve q*L = A (mod 2^(p+w)) using the inverse of the odd
// number L modulo a power of two, and return x = q*L + r. By construction x mod L = r mod L.

/// little-endian byte product, truncated to `n` bytes
fn mul_trunc(a: &[u8], b: &[u8], n: usize) -> Vec<u8> {
    let mut acc = vec![0u32; n + 1];
    for (i, x) in a.iter().enumerate() {
        if i >= n || *x == 0 {
            continue;
        }
        let mut carry = 0u32;
        for (j, y) in b.iter().enumerate() {
            if i + j >= n {
                break;
            }
            let t = acc[i + j] + (*x as u32) * (*y as u32) + carry;
            acc[i + j] = t & 0xff;
            carry = t >> 8;
        }
        let mut k = i + b.len();
        while carry != 0 && k < n {
            let t = acc[k] + carry;
            acc[k] = t & 0xff;
            carry = t >> 8;
            k += 1;
        }
    }
    acc[..n].iter().map(|v| *v as u8).collect()
}

/// L^-1 modulo 2^(8n) by Newton iteration (L is odd): inv <- inv * (2 - L*inv)
fn l_inverse(n: usize) -> Vec<u8> {
    let mut inv = vec![0u8; n];
    inv[0] = 1;
    for _ in 0..10 {
        let li = mul_trunc(&L, &inv, n);
        // two = 2 - li (mod 2^(8n))
        let mut two = vec![0u8; n];
        let mut borrow = 0i16;
        for i in 0..n {
            let base = if i == 0 { 2i16 } else { 0 };
            let mut t = base - li[i] as i16 - borrow;
            if t < 0 {
                t += 256;
                borrow = 1;
            } else {
                borrow = 0;
            }
            two[i] = t as u8;
        }
        inv = mul_trunc(&inv, &two, n);
    }
    inv
}

/// x = q*L + r (64 bytes, little-endian) where q*L has bits [p, p+w) all ones (`ones`) or all zeros, the bits below taken
/// from `filler`; `r` is any 32-byte value (x mod L = r mod L). p + w <= 256.
pub fn wide_with_saturated_window(p: usize, w: usize, ones: bool, filler: &[u8; 32], r: &[u8; 32]) -> [u8; 64] {
    let p = p.min(255);
    let w = w.max(1).min(256 - p);
    let m = p + w; // q*L is prescribed modulo 2^m
    let nbytes = (m + 7) / 8;
    let mut a = filler[..nbytes].to_vec();
    for bit in p..m {
        if ones {
            a[bit / 8] |= 1 << (bit % 8);
        } else {
            a[bit / 8] &= !(1 << (bit % 8));
        }
    }
    // q = a * L^-1 mod 2^m
    let inv = l_inverse(nbytes);
    let mut q = mul_trunc(&a, &inv, nbytes);
    if m % 8 != 0 {
        q[nbytes - 1] &= (1u8 << (m % 8)) - 1;
    }
    // x = q*L + r
    let mut x = mul_trunc(&q, &L, 64);
    let mut carry = 0u16;
    for i in 0..64 {
        let t = x[i] as u16 + if i < 32 { r[i] as u16 } else { 0 } + carry;
        x[i] = t as u8;
        carry = t >> 8;
    }
    let mut out = [0u8; 64];
    out.copy_from_slice(&x);
    out
}

#[cfg(test)]
mod window_tests {
    use super::*;
    #[test]
    fn inverse_and_window() {
        let inv = l_inverse(32);
        let one = mul_trunc(&L, &inv, 32);
        assert_eq!(one[0], 1);
        assert!(one[1..].iter().all(|b| *b == 0));
        let filler = [0x5au8; 32];
        let mut r = [0u8; 32];
        r[0] = 7;
        r[20] = 3;
        for (p, w, ones) in [(0usize, 56usize, true), (56, 56, true), (112, 56, false), (21, 21, true), (200, 56, true), (250, 6, true), (100, 64, false)] {
            let x = wide_with_saturated_window(p, w, ones, &filler, &r);
            // x mod L == r (r < L here)
            assert_eq!(mod_l(&x), r, "window {} {}", p, w);
            // (x - r) has the window saturated
            let mut y = x;
            sub_in_place(&mut y, &r);
            for bit in p..p + w {
                assert_eq!((y[bit / 8] >> (bit % 8)) & 1, ones as u8, "bit {} of window ({}, {})", bit, p, w);
            }
        }
    }
}
