//! Independent model of the RFC 8439 §2.8 AEAD construction on top of the two models.

use super::chacha::{chacha_ietf_block, keystream, Family};
use super::poly1305::poly1305;

pub struct Sealed {
    pub ct: Vec<u8>,
    pub tag: [u8; 16],
    pub pad_aad_zero: bool,
    pub pad_ct_zero: bool,
}

pub fn mac_data(aad: &[u8], ct: &[u8]) -> Vec<u8> {
    let mut m = Vec::with_capacity(aad.len() + ct.len() + 48);
    m.extend_from_slice(aad);
    while m.len() % 16 != 0 {
        m.push(0);
    }
    m.extend_from_slice(ct);
    while m.len() % 16 != 0 {
        m.push(0);
    }
    m.extend_from_slice(&(aad.len() as u64).to_le_bytes());
    m.extend_from_slice(&(ct.len() as u64).to_le_bytes());
    m
}

pub fn tag_for(key: &[u8], nonce: &[u8; 12], aad: &[u8], ct: &[u8], rounds: usize) -> [u8; 16] {
    let b0 = chacha_ietf_block(key, nonce, 0, rounds);
    let mut otk = [0u8; 32];
    otk.copy_from_slice(&b0[..32]);
    poly1305(&otk, &mac_data(aad, ct)).tag
}

pub fn seal(key: &[u8], nonce: &[u8; 12], aad: &[u8], pt: &[u8], rounds: usize) -> Sealed {
    let ks = keystream(Family::ChaChaIetf, key, nonce, 1, 0, pt.len(), rounds);
    let ct: Vec<u8> = pt.iter().zip(ks.iter()).map(|(a, b)| a ^ b).collect();
    let tag = tag_for(key, nonce, aad, &ct, rounds);
    Sealed { ct, tag, pad_aad_zero: aad.len() % 16 == 0, pad_ct_zero: pt.len() % 16 == 0 }
}

/// tag values worth forcing on an honest message (class `sel`, free bytes from `fill`): all-zero, all-ones, one, top
/// bit only, half-zero; and two classes given by the final accumulator instead (0 and p-1: the tag is then s resp.
/// s + p - 1 mod 2^128)
pub enum Forced {
    Tag([u8; 16]),
    Acc(super::poly1305::U320),
}

pub fn forced_goal(sel: u64, fill: &[u8; 16]) -> Forced {
    let mut t = *fill;
    match sel % 8 {
        0 => Forced::Tag([0u8; 16]),
        1 => Forced::Tag([0xffu8; 16]),
        2 => {
            t = [0u8; 16];
            t[0] = 1;
            Forced::Tag(t)
        }
        3 => {
            t = [0u8; 16];
            t[15] = 0x80;
            Forced::Tag(t)
        }
        4 => {
            for b in t[..8].iter_mut() {
                *b = 0;
            }
            Forced::Tag(t)
        }
        5 => {
            for b in t[8..].iter_mut() {
                *b = 0;
            }
            Forced::Tag(t)
        }
        6 => Forced::Acc(super::poly1305::U320::ZERO),
        _ => Forced::Acc(super::poly1305::p().sub(&super::poly1305::U320::small(1))),
    }
}

/// ciphertext bytes to append to `ct_prefix` (under the same key, nonce and AAD) so that the RFC 8439 tag of the whole
/// message meets `goal`: zero bytes completing the pending 16-byte block, one free block (varied per attempt), and one
/// block solved in Z/(2^130-5) - the last Poly1305 block before the length block. None when r = 0 or no attempt out of
/// 16 has a solution below 2^128 (each has roughly a one-in-four chance per candidate accumulator).
pub fn force_tag_suffix(key: &[u8], nonce: &[u8; 12], aad: &[u8], ct_prefix: &[u8], goal: &Forced, vary: u64, rounds: usize) -> Option<Vec<u8>> {
    use super::poly1305::{accumulator_after, clamped_r, inverse, p, reduce, solve_block, U320};
    let b0 = chacha_ietf_block(key, nonce, 0, rounds);
    let mut otk = [0u8; 32];
    otk.copy_from_slice(&b0[..32]);
    let r = clamped_r(&otk);
    if reduce(&r).is_zero() {
        return None;
    }
    let rinv = inverse(&r);
    let s = U320::from_le_bytes(&otk[16..32]);
    let mut two128 = [0u32; 10];
    two128[4] = 1;
    let two128 = U320(two128);
    // candidate final accumulators (canonical, below p)
    let mut finals: Vec<U320> = Vec::new();
    match goal {
        Forced::Acc(a) => finals.push(reduce(a)),
        Forced::Tag(t) => {
            let tv = U320::from_le_bytes(t);
            // A = t - s mod 2^128, then + k * 2^128 while below p
            let base = if tv.ge(&s) { tv.sub(&s) } else { tv.add(&two128).sub(&s) };
            let mut c = base;
            for _ in 0..4 {
                if !c.ge(&p()) {
                    finals.push(c);
                }
                c = c.add(&two128);
            }
        }
    }
    let pad = (16 - ct_prefix.len() % 16) % 16;
    for attempt in 0..16u64 {
        let mut suffix = vec![0u8; pad];
        suffix.extend_from_slice(&crate::rng::data(crate::rng::splitmix64(vary ^ attempt.wrapping_mul(0x9E3779B97F4A7C15)) | 16, 16));
        let total = ct_prefix.len() + suffix.len() + 16;
        // everything Poly1305 absorbs before the solved block
        let mut before = Vec::with_capacity(aad.len() + total + 32);
        before.extend_from_slice(aad);
        while before.len() % 16 != 0 {
            before.push(0);
        }
        before.extend_from_slice(ct_prefix);
        before.extend_from_slice(&suffix);
        let acc = accumulator_after(&otk, &before);
        let mut lens = [0u8; 17];
        lens[..8].copy_from_slice(&(aad.len() as u64).to_le_bytes());
        lens[8..16].copy_from_slice(&(total as u64).to_le_bytes());
        lens[16] = 1;
        let nl = reduce(&U320::from_le_bytes(&lens));
        for f in &finals {
            // f = (a_c + nl) * r  =>  a_c = f * r^-1 - nl
            let x = reduce(&f.mul(&rinv));
            let a_c = if x.ge(&nl) { x.sub(&nl) } else { x.add(&p()).sub(&nl) };
            if let Some(blk) = solve_block(&otk, &acc, &a_c) {
                suffix.extend_from_slice(&blk);
                return Some(suffix);
            }
        }
    }
    None
}

#[cfg(test)]
mod force_tests {
    use super::*;
    #[test]
    fn forced_tags_are_met() {
        let key: Vec<u8> = (0u8..32).collect();
        let nonce = [7u8; 12];
        let mut met = 0;
        for sel in 0..8u64 {
            for plen in [0usize, 5, 16, 33] {
                let prefix = crate::rng::data(99 + plen as u64, plen);
                let goal = forced_goal(sel, &[0xabu8; 16]);
                if let Some(sfx) = force_tag_suffix(&key, &nonce, b"header", &prefix, &goal, sel * 131 + plen as u64, 20) {
                    let mut ct = prefix.clone();
                    ct.extend_from_slice(&sfx);
                    let tag = tag_for(&key, &nonce, b"header", &ct, 20);
                    match goal {
                        Forced::Tag(t) => assert_eq!(tag, t),
                        Forced::Acc(_) => {}
                    }
                    met += 1;
                }
            }
        }
        assert!(met >= 24, "only {} of 32 goals met", met);
    }
}
