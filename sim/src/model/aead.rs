//! Independent model of the RFC 8439 §2.8 AEAD construction on top of the two models.

use super::chacha::{chacha_ietf_block, keystream, Family};
use super::poly1305::poly1305;

pub struct Sealed {
    pub ct: Vec<u8>,
    pub tag: [u8; 16],
    pub pad_aad_zero: bool,
    pub pad_ct_zero: bool,
}

pub fn mac_data(aad: &[u8], ct: &[u8]) -> Vec<u8> {
    let mut m = Vec::with_capacity(aad.len() + ct.len() + 48);
    m.extend_from_slice(aad);
    while m.len() % 16 != 0 {
        m.push(0);
    }
    m.extend_from_slice(ct);
    while m.len() % 16 != 0 {
        m.push(0);
    }
    m.extend_from_slice(&(aad.len() as u64).to_le_bytes());
    m.extend_from_slice(&(ct.len() as u64).to_le_bytes());
    m
}

pub fn tag_for(key: &[u8], nonce: &[u8; 12], aad: &[u8], ct: &[u8], rounds: usize) -> [u8; 16] {
    let b0 = chacha_ietf_block(key, nonce, 0, rounds);
    let mut otk = [0u8; 32];
    otk.copy_from_slice(&b0[..32]);
    poly1305(&otk, &mac_data(aad, ct)).tag
}

pub fn seal(key: &[u8], nonce: &[u8; 12], aad: &[u8], pt: &[u8], rounds: usize) -> Sealed {
    let ks = keystream(Family::ChaChaIetf, key, nonce, 1, 0, pt.len(), rounds);
    let ct: Vec<u8> = pt.iter().zip(ks.iter()).map(|(a, b)| a ^ b).collect();
    let tag = tag_for(key, nonce, aad, &ct, rounds);
    Sealed { ct, tag, pad_aad_zero: aad.len() % 16 == 0, pad_ct_zero: pt.len() % 16 == 0 }
}
