//! Independent Poly1305 model (RFC 8439 §2.5) over a small fixed-width big integer.

/// 320-bit unsigned integer, little-endian 32-bit limbs
#[derive(Clone, Copy, PartialEq, Eq, Debug)]
pub struct U320(pub [u32; 10]);

impl U320 {
    pub const ZERO: U320 = U320([0; 10]);
    pub fn from_le_bytes(b: &[u8]) -> U320 {
        let mut l = [0u32; 10];
        for (i, x) in b.iter().enumerate() {
            l[i / 4] |= (*x as u32) << (8 * (i % 4));
        }
        U320(l)
    }
    pub fn add(&self, o: &U320) -> U320 {
        let mut r = [0u32; 10];
        let mut c = 0u64;
        for i in 0..10 {
            let t = self.0[i] as u64 + o.0[i] as u64 + c;
            r[i] = t as u32;
            c = t >> 32;
        }
        U320(r)
    }
    pub fn mul(&self, o: &U320) -> U320 {
        // operands are < 2^131 and < 2^128 here: the product fits
        let mut r = [0u64; 11];
        for i in 0..10 {
            if self.0[i] == 0 {
                continue;
            }
            let mut c = 0u64;
            for j in 0..(10 - i) {
                let t = r[i + j] + (self.0[i] as u64) * (o.0[j] as u64) + c;
                r[i + j] = t & 0xffff_ffff;
                c = t >> 32;
            }
        }
        let mut l = [0u32; 10];
        for i in 0..10 {
            l[i] = r[i] as u32;
        }
        U320(l)
    }
    pub fn shr130(&self) -> U320 {
        // 130 = 4*32 + 2
        let mut r = [0u32; 10];
        for i in 0..10 {
            let lo = if i + 4 < 10 { self.0[i + 4] >> 2 } else { 0 };
            let hi = if i + 5 < 10 { self.0[i + 5] << 30 } else { 0 };
            r[i] = lo | hi;
        }
        U320(r)
    }
    pub fn low130(&self) -> U320 {
        let mut r = [0u32; 10];
        r[..4].copy_from_slice(&self.0[..4]);
        r[4] = self.0[4] & 3;
        U320(r)
    }
    pub fn is_zero(&self) -> bool {
        self.0.iter().all(|x| *x == 0)
    }
    pub fn ge(&self, o: &U320) -> bool {
        for i in (0..10).rev() {
            if self.0[i] != o.0[i] {
                return self.0[i] > o.0[i];
            }
        }
        true
    }
    pub fn sub(&self, o: &U320) -> U320 {
        let mut r = [0u32; 10];
        let mut b = 0i64;
        for i in 0..10 {
            let t = self.0[i] as i64 - o.0[i] as i64 - b;
            if t < 0 {
                r[i] = (t + (1i64 << 32)) as u32;
                b = 1;
            } else {
                r[i] = t as u32;
                b = 0;
            }
        }
        U320(r)
    }
    pub fn small(v: u32) -> U320 {
        let mut r = [0u32; 10];
        r[0] = v;
        U320(r)
    }
}

/// p = 2^130 - 5
pub fn p() -> U320 {
    let mut r = [0xffff_ffffu32; 10];
    r[0] = 0xffff_fffb;
    r[4] = 3;
    for x in r.iter_mut().skip(5) {
        *x = 0;
    }
    U320(r)
}

/// full reduction modulo 2^130-5
pub fn reduce(x: &U320) -> U320 {
    let mut v = *x;
    // fold: v = lo + 5*hi until hi = 0
    loop {
        let hi = v.shr130();
        if hi.is_zero() {
            break;
        }
        v = v.low130().add(&hi.mul(&U320::small(5)));
    }
    let pp = p();
    while v.ge(&pp) {
        v = v.sub(&pp);
    }
    v
}

/// clamped r of a key
pub fn clamped_r(key: &[u8; 32]) -> U320 {
    let mut rb = [0u8; 16];
    rb.copy_from_slice(&key[0..16]);
    rb[3] &= 15;
    rb[7] &= 15;
    rb[11] &= 15;
    rb[15] &= 15;
    rb[4] &= 252;
    rb[8] &= 252;
    rb[12] &= 252;
    U320::from_le_bytes(&rb)
}

/// canonical accumulator (in [0, p)) after absorbing `msg`, whose length must be a multiple of 16
pub fn accumulator_after(key: &[u8; 32], msg: &[u8]) -> U320 {
    let r = clamped_r(key);
    let mut acc = U320::ZERO;
    for chunk in msg.chunks(16) {
        let mut nb = [0u8; 17];
        nb[..chunk.len()].copy_from_slice(chunk);
        nb[chunk.len()] = 1;
        acc = reduce(&acc.add(&U320::from_le_bytes(&nb)).mul(&r));
    }
    acc
}

fn mulmod(a: &U320, b: &U320) -> U320 {
    reduce(&a.mul(b))
}

/// a^(p-2) mod p: the inverse of a non-zero residue (p is prime)
pub fn inverse(a: &U320) -> U320 {
    let e = p().sub(&U320::small(2));
    let mut result = U320::small(1);
    let base = reduce(a);
    for bit in (0..130).rev() {
        result = mulmod(&result, &result);
        if (e.0[bit / 32] >> (bit % 32)) & 1 == 1 {
            result = mulmod(&result, &base);
        }
    }
    result
}

/// a full 16-byte block m such that the accumulator equals `target` (mod p) right after (acc + m + 2^128) * r; None when
/// r = 0 or when the solution is not below 2^128 (about three times in four for a random target: the caller varies the
/// preceding block)
pub fn solve_block(key: &[u8; 32], acc: &U320, target: &U320) -> Option<[u8; 16]> {
    let r = clamped_r(key);
    if reduce(&r).is_zero() {
        return None;
    }
    let pp = p();
    // want (acc + m + 2^128) = target * r^-1 (mod p)
    let want = mulmod(&reduce(target), &inverse(&r));
    let mut two128 = [0u32; 10];
    two128[4] = 1;
    let sub = reduce(&acc.add(&U320(two128)));
    let m = if want.ge(&sub) { want.sub(&sub) } else { want.add(&pp).sub(&sub) };
    if m.0[4..].iter().any(|x| *x != 0) {
        return None;
    }
    let mut out = [0u8; 16];
    for i in 0..4 {
        out[4 * i..4 * i + 4].copy_from_slice(&m.0[i].to_le_bytes());
    }
    Some(out)
}

/// accumulator values worth forcing: next to the modulus, next to 2^128 and 2^130, residues with a second
/// representative, limb patterns
pub fn forced_target(sel: u64) -> U320 {
    let pp = p();
    let pow2 = |k: usize| {
        let mut l = [0u32; 10];
        l[k / 32] = 1 << (k % 32);
        U320(l)
    };
    let d = U320::small((sel / 16 % 8) as u32);
    match sel % 16 {
        0 => pp.sub(&U320::small(1)).sub(&d),          // p-1-d
        1 => d,                                         // 0..7 (0..4 have a second representative p..p+4)
        2 => pow2(128).sub(&U320::small(1)).sub(&d),    // just below 2^128
        3 => pow2(128).add(&d),                         // 2^128 + d
        4 => pow2(129).sub(&U320::small(1)).sub(&d),
        5 => pow2(129).add(&d),
        6 => pow2(130).sub(&U320::small(6)).sub(&d),    // p-1-d again from the other side
        7 => pow2(104).sub(&U320::small(1)),            // four 26-bit limbs saturated
        8 => pow2(96).sub(&U320::small(1)),             // three 32-bit words saturated
        9 => pow2(64).sub(&U320::small(1)).add(&pow2(128)),
        10 => pow2(26 * ((sel / 16 % 5) as usize + 1)).sub(&U320::small(1)), // k 26-bit limbs saturated
        11 => pow2(32 * ((sel / 16 % 4) as usize + 1)).sub(&U320::small(1)), // k 32-bit words saturated
        12 => pow2(44 * ((sel / 16 % 2) as usize + 1)).sub(&U320::small(1)), // 44-bit limbs saturated
        13 => pp.sub(&pow2(128)),                        // p - 2^128: adding a block marker wraps exactly
        14 => pow2(130).sub(&pow2(128)).sub(&d),
        _ => pow2(((sel / 16) % 130) as usize),
    }
}

pub struct PolyResult {
    pub tag: [u8; 16],
    /// the accumulator is congruent to 0..4: the only residues that have a second representative
    /// in [p, 2^130), i.e. where an implementation's final conditional subtraction can matter
    pub acc_small_residue: bool,
}

pub fn poly1305(key: &[u8; 32], msg: &[u8]) -> PolyResult {
    let mut rb = [0u8; 16];
    rb.copy_from_slice(&key[0..16]);
    // clamp
    rb[3] &= 15;
    rb[7] &= 15;
    rb[11] &= 15;
    rb[15] &= 15;
    rb[4] &= 252;
    rb[8] &= 252;
    rb[12] &= 252;
    let r = U320::from_le_bytes(&rb);
    let s = U320::from_le_bytes(&key[16..32]);
    let mut acc = U320::ZERO;
    for chunk in msg.chunks(16) {
        let mut nb = [0u8; 17];
        nb[..chunk.len()].copy_from_slice(chunk);
        nb[chunk.len()] = 1;
        let n = U320::from_le_bytes(&nb);
        acc = reduce(&acc.add(&n).mul(&r));
    }
    let small = !msg.is_empty() && acc.0[1..].iter().all(|x| *x == 0) && acc.0[0] < 5;
    let t = acc.add(&s);
    let mut tag = [0u8; 16];
    for i in 0..4 {
        tag[4 * i..4 * i + 4].copy_from_slice(&t.0[i].to_le_bytes());
    }
    PolyResult { tag, acc_small_residue: small }
}

#[cfg(test)]
mod tests {
    use super::*;
    #[test]
    fn rfc8439_2_5_2() {
        let key: [u8; 32] = [
            0x85, 0xd6, 0xbe, 0x78, 0x57, 0x55, 0x6d, 0x33, 0x7f, 0x44, 0x52, 0xfe, 0x42, 0xd5, 0x06, 0xa8, 0x01, 0x03, 0x80, 0x8a, 0xfb, 0x0d, 0xb2, 0xfd, 0x4a, 0xbf, 0xf6, 0xaf, 0x41, 0x49, 0xf5,
            0x1b,
        ];
        let r = poly1305(&key, b"Cryptographic Forum Research Group");
        assert_eq!(r.tag, [0xa8, 0x06, 0x1d, 0xc1, 0x30, 0x51, 0x36, 0xc6, 0xc2, 0x2b, 0x8b, 0xaf, 0x0c, 0x01, 0x27, 0xa9]);
    }
    #[test]
    fn solved_blocks_force_the_accumulator() {
        let mut key = [0u8; 32];
        for (i, b) in key.iter_mut().enumerate() {
            *b = (i * 37 + 11) as u8;
        }
        let prefix = [0x42u8; 32];
        let mut solved = 0;
        for sel in 0..400u64 {
            let target = forced_target(sel);
            let acc = accumulator_after(&key, &prefix);
            if let Some(m) = solve_block(&key, &acc, &target) {
                let mut msg = prefix.to_vec();
                msg.extend_from_slice(&m);
                assert_eq!(accumulator_after(&key, &msg), reduce(&target), "sel {}", sel);
                solved += 1;
            }
        }
        assert!(solved > 40, "only {} of 400 targets solvable", solved);
        let r = clamped_r(&key);
        assert_eq!(reduce(&r.mul(&inverse(&r))), U320::small(1));
    }
    #[test]
    fn a3_vector5() {
        // R = 2, S = 0, data = ff*16 -> tag 03 00..
        let mut key = [0u8; 32];
        key[0] = 2;
        let r = poly1305(&key, &[0xff; 16]);
        let mut want = [0u8; 16];
        want[0] = 3;
        assert_eq!(r.tag, want);
        assert!(r.acc_small_residue);
    }
}
