//! Independent Poly1305 model (RFC 8439 §2.5) over a small fixed-width big integer.

/// 320-bit unsigned integer, little-endian 32-bit limbs
#[derive(Clone, Copy, PartialEq, Eq, Debug)]
pub struct U320(pub [u32; 10]);

impl U320 {
    pub const ZERO: U320 = U320([0; 10]);
    pub fn from_le_bytes(b: &[u8]) -> U320 {
        let mut l = [0u32; 10];
        for (i, x) in b.iter().enumerate() {
            l[i / 4] |= (*x as u32) << (8 * (i % 4));
        }
        U320(l)
    }
    pub fn add(&self, o: &U320) -> U320 {
        let mut r = [0u32; 10];
        let mut c = 0u64;
        for i in 0..10 {
            let t = self.0[i] as u64 + o.0[i] as u64 + c;
            r[i] = t as u32;
            c = t >> 32;
        }
        U320(r)
    }
    pub fn mul(&self, o: &U320) -> U320 {
        // operands are < 2^131 and < 2^128 here: the product fits
        let mut r = [0u64; 11];
        for i in 0..10 {
            if self.0[i] == 0 {
                continue;
            }
            let mut c = 0u64;
            for j in 0..(10 - i) {
                let t = r[i + j] + (self.0[i] as u64) * (o.0[j] as u64) + c;
                r[i + j] = t & 0xffff_ffff;
                c = t >> 32;
            }
        }
        let mut l = [0u32; 10];
        for i in 0..10 {
            l[i] = r[i] as u32;
        }
        U320(l)
    }
    pub fn shr130(&self) -> U320 {
        // 130 = 4*32 + 2
        let mut r = [0u32; 10];
        for i in 0..10 {
            let lo = if i + 4 < 10 { self.0[i + 4] >> 2 } else { 0 };
            let hi = if i + 5 < 10 { self.0[i + 5] << 30 } else { 0 };
            r[i] = lo | hi;
        }
        U320(r)
    }
    pub fn low130(&self) -> U320 {
        let mut r = [0u32; 10];
        r[..4].copy_from_slice(&self.0[..4]);
        r[4] = self.0[4] & 3;
        U320(r)
    }
    pub fn is_zero(&self) -> bool {
        self.0.iter().all(|x| *x == 0)
    }
    pub fn ge(&self, o: &U320) -> bool {
        for i in (0..10).rev() {
            if self.0[i] != o.0[i] {
                return self.0[i] > o.0[i];
            }
        }
        true
    }
    pub fn sub(&self, o: &U320) -> U320 {
        let mut r = [0u32; 10];
        let mut b = 0i64;
        for i in 0..10 {
            let t = self.0[i] as i64 - o.0[i] as i64 - b;
            if t < 0 {
                r[i] = (t + (1i64 << 32)) as u32;
                b = 1;
            } else {
                r[i] = t as u32;
                b = 0;
            }
        }
        U320(r)
    }
    pub fn small(v: u32) -> U320 {
        let mut r = [0u32; 10];
        r[0] = v;
        U320(r)
    }
}

/// p = 2^130 - 5
pub fn p() -> U320 {
    let mut r = [0xffff_ffffu32; 10];
    r[0] = 0xffff_fffb;
    r[4] = 3;
    for x in r.iter_mut().skip(5) {
        *x = 0;
    }
    U320(r)
}

/// full reduction modulo 2^130-5
pub fn reduce(x: &U320) -> U320 {
    let mut v = *x;
    // fold: v = lo + 5*hi until hi = 0
    loop {
        let hi = v.shr130();
        if hi.is_zero() {
            break;
        }
        v = v.low130().add(&hi.mul(&U320::small(5)));
    }
    let pp = p();
    while v.ge(&pp) {
        v = v.sub(&pp);
    }
    v
}

pub struct PolyResult {
    pub tag: [u8; 16],
    /// the accumulator is congruent to 0..4: the only residues that have a second representative
    /// in [p, 2^130), i.e. where an implementation's final conditional subtraction can matter
    pub acc_small_residue: bool,
}

pub fn poly1305(key: &[u8; 32], msg: &[u8]) -> PolyResult {
    let mut rb = [0u8; 16];
    rb.copy_from_slice(&key[0..16]);
    // clamp
    rb[3] &= 15;
    rb[7] &= 15;
    rb[11] &= 15;
    rb[15] &= 15;
    rb[4] &= 252;
    rb[8] &= 252;
    rb[12] &= 252;
    let r = U320::from_le_bytes(&rb);
    let s = U320::from_le_bytes(&key[16..32]);
    let mut acc = U320::ZERO;
    for chunk in msg.chunks(16) {
        let mut nb = [0u8; 17];
        nb[..chunk.len()].copy_from_slice(chunk);
        nb[chunk.len()] = 1;
        let n = U320::from_le_bytes(&nb);
        acc = reduce(&acc.add(&n).mul(&r));
    }
    let small = !msg.is_empty() && acc.0[1..].iter().all(|x| *x == 0) && acc.0[0] < 5;
    let t = acc.add(&s);
    let mut tag = [0u8; 16];
    for i in 0..4 {
        tag[4 * i..4 * i + 4].copy_from_slice(&t.0[i].to_le_bytes());
    }
    PolyResult { tag, acc_small_residue: small }
}

#[cfg(test)]
mod tests {
    use super::*;
    #[test]
    fn rfc8439_2_5_2() {
        let key: [u8; 32] = [
            0x85, 0xd6, 0xbe, 0x78, 0x57, 0x55, 0x6d, 0x33, 0x7f, 0x44, 0x52, 0xfe, 0x42, 0xd5, 0x06, 0xa8, 0x01, 0x03, 0x80, 0x8a, 0xfb, 0x0d, 0xb2, 0xfd, 0x4a, 0xbf, 0xf6, 0xaf, 0x41, 0x49, 0xf5,
            0x1b,
        ];
        let r = poly1305(&key, b"Cryptographic Forum Research Group");
        assert_eq!(r.tag, [0xa8, 0x06, 0x1d, 0xc1, 0x30, 0x51, 0x36, 0xc6, 0xc2, 0x2b, 0x8b, 0xaf, 0x0c, 0x01, 0x27, 0xa9]);
    }
    #[test]
    fn a3_vector5() {
        // R = 2, S = 0, data = ff*16 -> tag 03 00..
        let mut key = [0u8; 32];
        key[0] = 2;
        let r = poly1305(&key, &[0xff; 16]);
        let mut want = [0u8; 16];
        want[0] = 3;
        assert_eq!(r.tag, want);
        assert!(r.acc_small_residue);
    }
}
