pub mod aead;
pub mod chacha;
pub mod poly1305;
pub mod big;
pub mod ed25519;
pub mod sha512;
pub mod digests;
