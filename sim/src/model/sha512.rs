//! Independent SHA-512 (FIPS 180-4), used only by the Ed25519 verification model so that the verdict oracle of C14
//! does not rest on the library's own hash. Straightforward, byte-at-a-time padding, no buffering tricks.

const K: [u64; 80] = [
    0x428a2f98d728ae22, 0x7137449123ef65cd, 0xb5c0fbcfec4d3b2f, 0xe9b5dba58189dbbc, 0x3956c25bf348b538, 0x59f111f1b605d019, 0x923f82a4af194f9b, 0xab1c5ed5da6d8118,
    0xd807aa98a3030242, 0x12835b0145706fbe, 0x243185be4ee4b28c, 0x550c7dc3d5ffb4e2, 0x72be5d74f27b896f, 0x80deb1fe3b1696b1, 0x9bdc06a725c71235, 0xc19bf174cf692694,
    0xe49b69c19ef14ad2, 0xefbe4786384f25e3, 0x0fc19dc68b8cd5b5, 0x240ca1cc77ac9c65, 0x2de92c6f592b0275, 0x4a7484aa6ea6e483, 0x5cb0a9dcbd41fbd4, 0x76f988da831153b5,
    0x983e5152ee66dfab, 0xa831c66d2db43210, 0xb00327c898fb213f, 0xbf597fc7beef0ee4, 0xc6e00bf33da88fc2, 0xd5a79147930aa725, 0x06ca6351e003826f, 0x142929670a0e6e70,
    0x27b70a8546d22ffc, 0x2e1b21385c26c926, 0x4d2c6dfc5ac42aed, 0x53380d139d95b3df, 0x650a73548baf63de, 0x766a0abb3c77b2a8, 0x81c2c92e47edaee6, 0x92722c851482353b,
    0xa2bfe8a14cf10364, 0xa81a664bbc423001, 0xc24b8b70d0f89791, 0xc76c51a30654be30, 0xd192e819d6ef5218, 0xd69906245565a910, 0xf40e35855771202a, 0x106aa07032bbd1b8,
    0x19a4c116b8d2d0c8, 0x1e376c085141ab53, 0x2748774cdf8eeb99, 0x34b0bcb5e19b48a8, 0x391c0cb3c5c95a63, 0x4ed8aa4ae3418acb, 0x5b9cca4f7763e373, 0x682e6ff3d6b2b8a3,
    0x748f82ee5defb2fc, 0x78a5636f43172f60, 0x84c87814a1f0ab72, 0x8cc702081a6439ec, 0x90befffa23631e28, 0xa4506cebde82bde9, 0xbef9a3f7b2c67915, 0xc67178f2e372532b,
    0xca273eceea26619c, 0xd186b8c721c0c207, 0xeada7dd6cde0eb1e, 0xf57d4f7fee6ed178, 0x06f067aa72176fba, 0x0a637dc5a2c898a6, 0x113f9804bef90dae, 0x1b710b35131c471b,
    0x28db77f523047d84, 0x32caab7b40c72493, 0x3c9ebe0a15c9bebc, 0x431d67c49c100d4c, 0x4cc5d4becb3e42b6, 0x597f299cfc657e2a, 0x5fcb6fab3ad6faec, 0x6c44198c4a475817,
];

fn compress(h: &mut [u64; 8], block: &[u8]) {
    let mut w = [0u64; 80];
    for t in 0..16 {
        let mut v = 0u64;
        for j in 0..8 {
            v = (v << 8) | block[8 * t + j] as u64;
        }
        w[t] = v;
    }
    for t in 16..80 {
        let s0 = w[t - 15].rotate_right(1) ^ w[t - 15].rotate_right(8) ^ (w[t - 15] >> 7);
        let s1 = w[t - 2].rotate_right(19) ^ w[t - 2].rotate_right(61) ^ (w[t - 2] >> 6);
        w[t] = w[t - 16].wrapping_add(s0).wrapping_add(w[t - 7]).wrapping_add(s1);
    }
    let (mut a, mut b, mut c, mut d, mut e, mut f, mut g, mut hh) = (h[0], h[1], h[2], h[3], h[4], h[5], h[6], h[7]);
    for t in 0..80 {
        let s1 = e.rotate_right(14) ^ e.rotate_right(18) ^ e.rotate_right(41);
        let ch = (e & f) ^ (!e & g);
        let t1 = hh.wrapping_add(s1).wrapping_add(ch).wrapping_add(K[t]).wrapping_add(w[t]);
        let s0 = a.rotate_right(28) ^ a.rotate_right(34) ^ a.rotate_right(39);
        let maj = (a & b) ^ (a & c) ^ (b & c);
        let t2 = s0.wrapping_add(maj);
        hh = g;
        g = f;
        f = e;
        e = d.wrapping_add(t1);
        d = c;
        c = b;
        b = a;
        a = t1.wrapping_add(t2);
    }
    for (x, y) in h.iter_mut().zip([a, b, c, d, e, f, g, hh]) {
        *x = x.wrapping_add(y);
    }
}

pub fn sha512(msg: &[u8]) -> [u8; 64] {
    sha512_with([0x6a09e667f3bcc908, 0xbb67ae8584caa73b, 0x3c6ef372fe94f82b, 0xa54ff53a5f1d36f1, 0x510e527fade682d1, 0x9b05688c2b3e6c1f, 0x1f83d9abfb41bd6b, 0x5be0cd19137e2179], msg)
}

/// the SHA-512 compression chain from an arbitrary initial value (SHA-384, SHA-512/224, SHA-512/256 differ only there)
pub fn sha512_with(iv: [u64; 8], msg: &[u8]) -> [u8; 64] {
    let mut h = iv;
    // message || 0x80 || zeros || 128-bit big-endian bit length, to a multiple of 128 bytes
    let mut m = msg.to_vec();
    m.push(0x80);
    while m.len() % 128 != 112 {
        m.push(0);
    }
    let bits = (msg.len() as u128) * 8;
    m.extend_from_slice(&bits.to_be_bytes());
    for block in m.chunks(128) {
        compress(&mut h, block);
    }
    let mut out = [0u8; 64];
    for (i, v) in h.iter().enumerate() {
        out[8 * i..8 * i + 8].copy_from_slice(&v.to_be_bytes());
    }
    out
}

#[cfg(test)]
mod tests {
    use super::sha512;
    fn hex(b: &[u8]) -> String {
        b.iter().map(|x| format!("{:02x}", x)).collect()
    }
    #[test]
    fn fips_vectors() {
        assert_eq!(hex(&sha512(b"abc")), "ddaf35a193617abacc417349ae20413112e6fa4e89a97ea20a9eeee64b55d39a2192992a274fc1a836ba3c23a3feebbd454d4423643ce80e2a9ac94fa54ca49f");
        assert_eq!(hex(&sha512(b"")), "cf83e1357eefb8bdf1542850d66d8007d620e4050b5715dc83f4a921d36ce9ce47d0d13c5d85f2b0ff8318d2877eec2f63b931bd47417a81a538327af927da3e");
        assert_eq!(
            hex(&sha512(b"abcdefghbcdefghicdefghijdefghijkefghijklfghijklmghijklmnhijklmnoijklmnopjklmnopqklmnopqrlmnopqrsmnopqrstnopqrstu")),
            "8e959b75dae313da8cf4f72814fc143f8f7779c6eb9f7fa17299aeadb6889018501d289e4900f7e4331b99dec4b5433ac7d329eeb6dd26545e96e55b874be909"
        );
        // every length around the padding boundaries agrees with a second, differently structured computation:
        // a million 'a' is too slow for a unit test; check lengths 0..300 against the library on the unchanged tree instead
        for n in 0..300usize {
            let m: Vec<u8> = (0..n).map(|i| (i * 7 + 3) as u8).collect();
            assert_eq!(sha512(&m)[..], cryptoxide::hashing::sha512(&m)[..], "len {}", n);
        }
    }
}
