//! Independent model of Ed25519 verification (RFC 8032 §5.1.3, §5.1.7), written from the RFC on
//! plain 256-bit integers: no code, representation or formula shared with the library
//! (canonical 4x64-bit values, schoolbook multiplication with 2^256 = 38 folding, unified
//! extended-coordinates addition, bit-by-bit double-and-add).
//! SHA-512 is taken from the library (a wrong hash is property C01's business).

use super::big;

pub type Fe = [u64; 4];

pub const P: Fe = [0xffff_ffff_ffff_ffed, 0xffff_ffff_ffff_ffff, 0xffff_ffff_ffff_ffff, 0x7fff_ffff_ffff_ffff];
pub const ZERO: Fe = [0, 0, 0, 0];
pub const ONE: Fe = [1, 0, 0, 0];

fn geq(a: &Fe, b: &Fe) -> bool {
    for i in (0..4).rev() {
        if a[i] != b[i] {
            return a[i] > b[i];
        }
    }
    true
}

fn sub_raw(a: &Fe, b: &Fe) -> (Fe, bool) {
    let mut r = [0u64; 4];
    let mut borrow = false;
    for i in 0..4 {
        let (t, b1) = a[i].overflowing_sub(b[i]);
        let (t2, b2) = t.overflowing_sub(borrow as u64);
        r[i] = t2;
        borrow = b1 || b2;
    }
    (r, borrow)
}

fn add_raw(a: &Fe, b: &Fe) -> (Fe, bool) {
    let mut r = [0u64; 4];
    let mut carry = false;
    for i in 0..4 {
        let (t, c1) = a[i].overflowing_add(b[i]);
        let (t2, c2) = t.overflowing_add(carry as u64);
        r[i] = t2;
        carry = c1 || c2;
    }
    (r, carry)
}

/// canonical representative of a value < 2^256
fn canon(mut a: Fe) -> Fe {
    while geq(&a, &P) {
        a = sub_raw(&a, &P).0;
    }
    a
}

pub fn from_bytes_raw(b: &[u8; 32]) -> Fe {
    let mut r = [0u64; 4];
    for i in 0..4 {
        let mut w = [0u8; 8];
        w.copy_from_slice(&b[8 * i..8 * i + 8]);
        r[i] = u64::from_le_bytes(w);
    }
    r
}

pub fn to_bytes(a: &Fe) -> [u8; 32] {
    let c = canon(*a);
    let mut out = [0u8; 32];
    for i in 0..4 {
        out[8 * i..8 * i + 8].copy_from_slice(&c[i].to_le_bytes());
    }
    out
}

pub fn add(a: &Fe, b: &Fe) -> Fe {
    // both canonical (< p < 2^255): no overflow of 256 bits
    canon(add_raw(a, b).0)
}

pub fn sub(a: &Fe, b: &Fe) -> Fe {
    let (r, borrow) = sub_raw(a, b);
    if borrow {
        add_raw(&r, &P).0
    } else {
        canon(r)
    }
}

pub fn neg(a: &Fe) -> Fe {
    sub(&ZERO, a)
}

pub fn mul(a: &Fe, b: &Fe) -> Fe {
    let mut t = [0u64; 8];
    for i in 0..4 {
        let mut carry: u128 = 0;
        for j in 0..4 {
            let v = (a[i] as u128) * (b[j] as u128) + (t[i + j] as u128) + carry;
            t[i + j] = v as u64;
            carry = v >> 64;
        }
        t[i + 4] = carry as u64;
    }
    // fold the high half: 2^256 = 38 (mod p)
    let mut r = [0u64; 5];
    let mut carry: u128 = 0;
    for i in 0..4 {
        let v = (t[i] as u128) + (t[i + 4] as u128) * 38 + carry;
        r[i] = v as u64;
        carry = v >> 64;
    }
    r[4] = carry as u64;
    // fold the (small) fifth limb, possibly twice
    let mut lo: Fe = [r[0], r[1], r[2], r[3]];
    let mut hi = r[4];
    while hi != 0 {
        let mut carry: u128 = (hi as u128) * 38;
        for x in lo.iter_mut() {
            let v = (*x as u128) + carry;
            *x = v as u64;
            carry = v >> 64;
        }
        hi = carry as u64;
    }
    canon(lo)
}

pub fn sq(a: &Fe) -> Fe {
    mul(a, a)
}

/// a^e for a little-endian exponent
pub fn pow(a: &Fe, e: &[u8; 32]) -> Fe {
    let mut r = ONE;
    for bit in (0..256).rev() {
        r = sq(&r);
        if (e[bit / 8] >> (bit % 8)) & 1 == 1 {
            r = mul(&r, a);
        }
    }
    r
}

fn p_minus(k: u64) -> [u8; 32] {
    let mut v = P;
    v[0] -= k;
    let mut out = [0u8; 32];
    for i in 0..4 {
        out[8 * i..8 * i + 8].copy_from_slice(&v[i].to_le_bytes());
    }
    out
}

pub fn inv(a: &Fe) -> Fe {
    pow(a, &p_minus(2))
}

fn small(v: u64) -> Fe {
    [v, 0, 0, 0]
}

/// d = -121665 / 121666
pub fn d() -> Fe {
    mul(&neg(&small(121665)), &inv(&small(121666)))
}

/// sqrt(-1) = 2^((p-1)/4)
pub fn sqrt_m1() -> Fe {
    // (p-1)/4 = 2^253 - 5
    let mut e = [0xffu8; 32];
    e[0] = 0xfb;
    e[31] = 0x1f;
    pow(&small(2), &e)
}

#[derive(Clone, Copy, Debug)]
pub struct Point {
    x: Fe,
    y: Fe,
    z: Fe,
    t: Fe,
}

pub fn identity() -> Point {
    Point { x: ZERO, y: ONE, z: ONE, t: ZERO }
}

/// unified addition on -x^2 + y^2 = 1 + d x^2 y^2 (complete: d is a non-square)
pub fn padd(p: &Point, q: &Point, d2: &Fe) -> Point {
    let a = mul(&sub(&p.y, &p.x), &sub(&q.y, &q.x));
    let b = mul(&add(&p.y, &p.x), &add(&q.y, &q.x));
    let c = mul(&mul(&p.t, d2), &q.t);
    let dd = mul(&add(&p.z, &p.z), &q.z);
    let e = sub(&b, &a);
    let f = sub(&dd, &c);
    let g = add(&dd, &c);
    let h = add(&b, &a);
    Point { x: mul(&e, &f), y: mul(&g, &h), z: mul(&f, &g), t: mul(&e, &h) }
}

pub fn pneg(p: &Point) -> Point {
    Point { x: neg(&p.x), y: p.y, z: p.z, t: neg(&p.t) }
}

/// [k]P for a little-endian scalar of any length (not reduced)
pub fn scalarmult(k: &[u8], p: &Point, d2: &Fe) -> Point {
    let mut r = identity();
    for bit in (0..k.len() * 8).rev() {
        r = padd(&r, &r, d2);
        if (k[bit / 8] >> (bit % 8)) & 1 == 1 {
            r = padd(&r, p, d2);
        }
    }
    r
}

pub fn encode(p: &Point) -> [u8; 32] {
    let zi = inv(&p.z);
    let x = mul(&p.x, &zi);
    let y = mul(&p.y, &zi);
    let mut out = to_bytes(&y);
    out[31] |= ((to_bytes(&x)[0] & 1) as u8) << 7;
    out
}

#[derive(Clone, Copy, Debug, PartialEq, Eq)]
pub enum Decoded {
    /// canonical encoding of a curve point
    Point,
    /// a curve point, but the encoding is not the canonical one (y >= p, or x = 0 with the sign bit set):
    /// RFC 8032 says decoding fails, many implementations accept
    NonCanonical,
    /// not a point
    Invalid,
}

/// RFC 8032 §5.1.3; for non-canonical encodings the liberal reading (y mod p, sign ignored when x = 0)
pub fn decode(bytes: &[u8; 32], dconst: &Fe) -> (Decoded, Point) {
    let mut yb = *bytes;
    let sign = (yb[31] >> 7) & 1;
    yb[31] &= 0x7f;
    let yraw = from_bytes_raw(&yb);
    let mut status = Decoded::Point;
    if geq(&yraw, &P) {
        status = Decoded::NonCanonical;
    }
    let y = canon(yraw);
    let y2 = sq(&y);
    let u = sub(&y2, &ONE);
    let v = add(&mul(dconst, &y2), &ONE);
    // x = sqrt(u/v): candidate (u/v)^((p+3)/8)
    let w = mul(&u, &inv(&v));
    // (p+3)/8 = 2^252 - 2
    let mut e = [0xffu8; 32];
    e[0] = 0xfe;
    e[31] = 0x0f;
    let mut x = pow(&w, &e);
    if sq(&x) != w {
        x = mul(&x, &sqrt_m1());
        if sq(&x) != w {
            return (Decoded::Invalid, identity());
        }
    }
    if x == ZERO && sign == 1 {
        status = Decoded::NonCanonical;
    }
    if (to_bytes(&x)[0] & 1) != sign {
        x = neg(&x);
    }
    let t = mul(&x, &y);
    (status, Point { x, y, z: ONE, t })
}

pub fn base(dconst: &Fe) -> Point {
    let mut b = [0x66u8; 32];
    b[0] = 0x58;
    decode(&b, dconst).1
}

#[derive(Clone, Copy, Debug, PartialEq, Eq)]
pub enum Verdict {
    Accept,
    Reject,
    /// the property text does not fix the verdict (non-canonical key encoding; or the two readings of
    /// "H(R||A||M)*A" — hash reduced modulo L or not — disagree for a key with a torsion component)
    Unspecified,
}

fn lt_l(s: &[u8; 32]) -> bool {
    big::lt_l(s)
}

/// the verdict the property specifies for an arbitrary triple
pub fn verify(msg: &[u8], pk: &[u8; 32], sig: &[u8; 64]) -> Verdict {
    let dconst = d();
    let d2 = add(&dconst, &dconst);
    let mut s = [0u8; 32];
    s.copy_from_slice(&sig[32..]);
    if !lt_l(&s) {
        return Verdict::Reject;
    }
    if pk == &[0u8; 32] {
        return Verdict::Reject;
    }
    let (st, a) = decode(pk, &dconst);
    match st {
        Decoded::Invalid => return Verdict::Reject,
        Decoded::NonCanonical => return Verdict::Unspecified,
        Decoded::Point => {}
    }
    let mut pre = Vec::with_capacity(64 + msg.len());
    pre.extend_from_slice(&sig[..32]);
    pre.extend_from_slice(pk);
    pre.extend_from_slice(msg);
    // H is SHA-512 as specified (RFC 8032), computed by the harness's own implementation: the verdict oracle does not
    // rest on the library's hash
    let h = crate::model::sha512::sha512(&pre);
    let hred = big::mod_l(&h);
    let sb = scalarmult(&s, &base(&dconst), &d2);
    let na = pneg(&a);
    let p1 = padd(&sb, &scalarmult(&hred, &na, &d2), &d2);
    let p2 = padd(&sb, &scalarmult(&h, &na, &d2), &d2);
    let ok1 = encode(&p1)[..] == sig[..32];
    let ok2 = encode(&p2)[..] == sig[..32];
    if ok1 != ok2 {
        return Verdict::Unspecified;
    }
    if ok1 {
        Verdict::Accept
    } else {
        Verdict::Reject
    }
}

/// enc([s]B) for an arbitrary (possibly non-canonical) 32-byte scalar
pub fn encode_scalarmult_base(s: &[u8; 32]) -> [u8; 32] {
    let dconst = d();
    let d2 = add(&dconst, &dconst);
    encode(&scalarmult(s, &base(&dconst), &d2))
}

/// A + T as bytes (used by the Byzantine sender to build mixed-order keys); None if either is not a point
pub fn add_encoded(a: &[u8; 32], t: &[u8; 32]) -> Option<[u8; 32]> {
    let dconst = d();
    let d2 = add(&dconst, &dconst);
    let (sa, pa) = decode(a, &dconst);
    let (stt, pt) = decode(t, &dconst);
    if sa == Decoded::Invalid || stt == Decoded::Invalid {
        return None;
    }
    Some(encode(&padd(&pa, &pt, &d2)))
}

#[cfg(test)]
mod tests {
    use super::*;

    fn unhex(s: &str) -> Vec<u8> {
        (0..s.len() / 2).map(|i| u8::from_str_radix(&s[2 * i..2 * i + 2], 16).unwrap()).collect()
    }

    #[test]
    fn rfc8032_test1_and_2() {
        // RFC 8032 §7.1 TEST 1 (empty message) and TEST 2 (one byte)
        let pk1 = unhex("d75a980182b10ab7d54bfed3c964073a0ee172f3daa62325af021a68f707511a");
        let sig1 = unhex("e5564300c360ac729086e2cc806e828a84877f1eb8e5d974d873e065224901555fb8821590a33bacc61e39701cf9b46bd25bf5f0595bbe24655141438e7a100b");
        let mut pk = [0u8; 32];
        pk.copy_from_slice(&pk1);
        let mut sig = [0u8; 64];
        sig.copy_from_slice(&sig1);
        assert_eq!(verify(b"", &pk, &sig), Verdict::Accept);
        assert_eq!(verify(b"x", &pk, &sig), Verdict::Reject);
        let mut bad = sig;
        bad[5] ^= 1;
        assert_eq!(verify(b"", &pk, &bad), Verdict::Reject);
        let pk2 = unhex("3d4017c3e843895a92b70aa74d1b7ebc9c982ccf2ec4968cc0cd55f12af4660c");
        let sig2 = unhex("92a009a9f0d4cab8720e820b5f642540a2b27b5416503f8fb3762223ebdb69da085ac1e43e15996e458f3613d0f11d8c387b2eaeb4302aeeb00d291612bb0c00");
        pk.copy_from_slice(&pk2);
        sig.copy_from_slice(&sig2);
        assert_eq!(verify(&[0x72], &pk, &sig), Verdict::Accept);
    }

    #[test]
    fn torsion_points_have_order_dividing_8() {
        let dconst = d();
        let d2 = add(&dconst, &dconst);
        for t in crate::scn::sigchannel::TORSION.iter() {
            let (st, p) = decode(t, &dconst);
            assert_eq!(st, Decoded::Point);
            let p8 = scalarmult(&[8], &p, &d2);
            assert_eq!(encode(&p8), crate::scn::sigchannel::TORSION[0]);
            assert_eq!(&encode(&p), t);
        }
    }

    #[test]
    fn base_point_order() {
        let dconst = d();
        let d2 = add(&dconst, &dconst);
        let b = base(&dconst);
        assert_eq!(encode(&scalarmult(&big::L, &b, &d2)), crate::scn::sigchannel::TORSION[0]);
    }
}
