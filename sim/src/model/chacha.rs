//! Independent scalar models of the ChaCha and Salsa20 block functions, written from
//! RFC 8439 §2.1-2.3, Bernstein's "ChaCha, a variant of Salsa20" / "Salsa20 specification",
//! draft-irtf-cfrg-xchacha (HChaCha20) and "Extending the Salsa20 nonce" (HSalsa20).
//! Nothing here is shared with the library.

fn le32(b: &[u8]) -> u32 {
    (b[0] as u32) | ((b[1] as u32) << 8) | ((b[2] as u32) << 16) | ((b[3] as u32) << 24)
}

const SIGMA: &[u8; 16] = b"expand 32-byte k";
const TAU: &[u8; 16] = b"expand 16-byte k";

fn chacha_qr(x: &mut [u32; 16], a: usize, b: usize, c: usize, d: usize) {
    x[a] = x[a].wrapping_add(x[b]);
    x[d] = (x[d] ^ x[a]).rotate_left(16);
    x[c] = x[c].wrapping_add(x[d]);
    x[b] = (x[b] ^ x[c]).rotate_left(12);
    x[a] = x[a].wrapping_add(x[b]);
    x[d] = (x[d] ^ x[a]).rotate_left(8);
    x[c] = x[c].wrapping_add(x[d]);
    x[b] = (x[b] ^ x[c]).rotate_left(7);
}

fn chacha_permute(x: &mut [u32; 16], rounds: usize) {
    for _ in 0..rounds / 2 {
        chacha_qr(x, 0, 4, 8, 12);
        chacha_qr(x, 1, 5, 9, 13);
        chacha_qr(x, 2, 6, 10, 14);
        chacha_qr(x, 3, 7, 11, 15);
        chacha_qr(x, 0, 5, 10, 15);
        chacha_qr(x, 1, 6, 11, 12);
        chacha_qr(x, 2, 7, 8, 13);
        chacha_qr(x, 3, 4, 9, 14);
    }
}

/// words 0..12: constants and key (a 16-byte key is used twice, with the tau constant)
fn chacha_key_setup(key: &[u8]) -> [u32; 16] {
    let mut s = [0u32; 16];
    let (c, k2) = if key.len() == 32 { (SIGMA, &key[16..32]) } else { (TAU, &key[0..16]) };
    for i in 0..4 {
        s[i] = le32(&c[4 * i..]);
        s[4 + i] = le32(&key[4 * i..]);
        s[8 + i] = le32(&k2[4 * i..]);
    }
    s
}

fn serialize(x: &[u32; 16]) -> [u8; 64] {
    let mut out = [0u8; 64];
    for i in 0..16 {
        out[4 * i..4 * i + 4].copy_from_slice(&x[i].to_le_bytes());
    }
    out
}

fn chacha_block_words(key: &[u8], last_row: [u32; 4], rounds: usize) -> [u8; 64] {
    let mut s = chacha_key_setup(key);
    s[12..16].copy_from_slice(&last_row);
    let mut w = s;
    chacha_permute(&mut w, rounds);
    for i in 0..16 {
        w[i] = w[i].wrapping_add(s[i]);
    }
    serialize(&w)
}

/// RFC 8439: 32-bit block counter, 96-bit nonce
pub fn chacha_ietf_block(key: &[u8], nonce: &[u8], counter: u32, rounds: usize) -> [u8; 64] {
    chacha_block_words(key, [counter, le32(&nonce[0..]), le32(&nonce[4..]), le32(&nonce[8..])], rounds)
}

/// Bernstein's original: 64-bit block counter (low word first), 64-bit nonce
pub fn chacha_orig_block(key: &[u8], nonce: &[u8], counter: u64, rounds: usize) -> [u8; 64] {
    chacha_block_words(key, [counter as u32, (counter >> 32) as u32, le32(&nonce[0..]), le32(&nonce[4..])], rounds)
}

/// HChaCha: permutation without feed-forward; first and last rows
pub fn hchacha(key: &[u8], nonce16: &[u8], rounds: usize) -> [u8; 32] {
    let mut s = chacha_key_setup(key);
    for i in 0..4 {
        s[12 + i] = le32(&nonce16[4 * i..]);
    }
    chacha_permute(&mut s, rounds);
    let mut out = [0u8; 32];
    for i in 0..4 {
        out[4 * i..4 * i + 4].copy_from_slice(&s[i].to_le_bytes());
        out[16 + 4 * i..16 + 4 * i + 4].copy_from_slice(&s[12 + i].to_le_bytes());
    }
    out
}

/// XChaCha (draft-irtf-cfrg-xchacha): subkey = HChaCha(key, nonce[0..16]); then the IETF layout
/// with nonce = 00000000 || nonce[16..24] and a 32-bit block counter.
pub fn xchacha_block(key: &[u8], nonce24: &[u8], counter: u32, rounds: usize) -> [u8; 64] {
    let sub = hchacha(key, &nonce24[0..16], rounds);
    chacha_block_words(&sub, [counter, 0, le32(&nonce24[16..]), le32(&nonce24[20..])], rounds)
}

fn salsa_qr(x: &mut [u32; 16], a: usize, b: usize, c: usize, d: usize) {
    x[b] ^= x[a].wrapping_add(x[d]).rotate_left(7);
    x[c] ^= x[b].wrapping_add(x[a]).rotate_left(9);
    x[d] ^= x[c].wrapping_add(x[b]).rotate_left(13);
    x[a] ^= x[d].wrapping_add(x[c]).rotate_left(18);
}

fn salsa_permute(x: &mut [u32; 16], rounds: usize) {
    for _ in 0..rounds / 2 {
        // column round
        salsa_qr(x, 0, 4, 8, 12);
        salsa_qr(x, 5, 9, 13, 1);
        salsa_qr(x, 10, 14, 2, 6);
        salsa_qr(x, 15, 3, 7, 11);
        // row round
        salsa_qr(x, 0, 1, 2, 3);
        salsa_qr(x, 5, 6, 7, 4);
        salsa_qr(x, 10, 11, 8, 9);
        salsa_qr(x, 15, 12, 13, 14);
    }
}

fn salsa_setup(key: &[u8], w6789: [u32; 4]) -> [u32; 16] {
    let (c, k2) = if key.len() == 32 { (SIGMA, &key[16..32]) } else { (TAU, &key[0..16]) };
    let mut s = [0u32; 16];
    s[0] = le32(&c[0..]);
    s[5] = le32(&c[4..]);
    s[10] = le32(&c[8..]);
    s[15] = le32(&c[12..]);
    for i in 0..4 {
        s[1 + i] = le32(&key[4 * i..]);
        s[11 + i] = le32(&k2[4 * i..]);
    }
    s[6] = w6789[0];
    s[7] = w6789[1];
    s[8] = w6789[2];
    s[9] = w6789[3];
    s
}

/// Salsa20/r: 64-bit nonce in words 6,7; 64-bit block counter in words 8,9
pub fn salsa_block(key: &[u8], nonce: &[u8], counter: u64, rounds: usize) -> [u8; 64] {
    let s = salsa_setup(key, [le32(&nonce[0..]), le32(&nonce[4..]), counter as u32, (counter >> 32) as u32]);
    let mut w = s;
    salsa_permute(&mut w, rounds);
    for i in 0..16 {
        w[i] = w[i].wrapping_add(s[i]);
    }
    serialize(&w)
}

pub fn hsalsa(key: &[u8], nonce16: &[u8], rounds: usize) -> [u8; 32] {
    let mut s = salsa_setup(key, [le32(&nonce16[0..]), le32(&nonce16[4..]), le32(&nonce16[8..]), le32(&nonce16[12..])]);
    salsa_permute(&mut s, rounds);
    let mut out = [0u8; 32];
    for (i, w) in [0usize, 5, 10, 15, 6, 7, 8, 9].iter().enumerate() {
        out[4 * i..4 * i + 4].copy_from_slice(&s[*w].to_le_bytes());
    }
    out
}

pub fn xsalsa_block(key: &[u8], nonce24: &[u8], counter: u64, rounds: usize) -> [u8; 64] {
    let sub = hsalsa(key, &nonce24[0..16], rounds);
    salsa_block(&sub, &nonce24[16..24], counter, rounds)
}

#[derive(Clone, Copy, PartialEq, Eq, Debug)]
pub enum Family {
    ChaChaIetf,
    XChaCha,
    ChaChaOriginal,
    Salsa,
    XSalsa,
}

impl Family {
    pub fn counter_bits(self) -> u32 {
        match self {
            Family::ChaChaIetf | Family::XChaCha => 32,
            _ => 64,
        }
    }
    pub fn nonce_len(self) -> usize {
        match self {
            Family::ChaChaIetf => 12,
            Family::XChaCha | Family::XSalsa => 24,
            _ => 8,
        }
    }
}

/// keystream block at absolute block index `block` (already reduced to the variant's counter width)
pub fn block(f: Family, key: &[u8], nonce: &[u8], block: u64, rounds: usize) -> [u8; 64] {
    match f {
        Family::ChaChaIetf => chacha_ietf_block(key, nonce, block as u32, rounds),
        Family::XChaCha => xchacha_block(key, nonce, block as u32, rounds),
        Family::ChaChaOriginal => chacha_orig_block(key, nonce, block, rounds),
        Family::Salsa => salsa_block(key, nonce, block, rounds),
        Family::XSalsa => xsalsa_block(key, nonce, block, rounds),
    }
}

/// `len` keystream bytes starting `offset` bytes into block `start_block`, the counter
/// advancing by one per 64 bytes and wrapping at the variant's counter width.
pub fn keystream(f: Family, key: &[u8], nonce: &[u8], start_block: u64, offset: usize, len: usize, rounds: usize) -> Vec<u8> {
    let mask: u64 = if f.counter_bits() == 32 { 0xffff_ffff } else { u64::MAX };
    let mut out = Vec::with_capacity(len);
    let mut blk = start_block & mask;
    let mut off = offset;
    while out.len() < len {
        let b = block(f, key, nonce, blk, rounds);
        let take = (64 - off).min(len - out.len());
        out.extend_from_slice(&b[off..off + take]);
        off = 0;
        blk = blk.wrapping_add(1) & mask;
    }
    out
}

#[cfg(test)]
mod tests {
    use super::*;
    #[test]
    fn rfc8439_block() {
        // RFC 8439 §2.3.2
        let key: Vec<u8> = (0u8..32).collect();
        let nonce = [0, 0, 0, 9, 0, 0, 0, 0x4a, 0, 0, 0, 0];
        let b = chacha_ietf_block(&key, &nonce, 1, 20);
        assert_eq!(&b[0..8], &[0x10, 0xf1, 0xe7, 0xe4, 0xd1, 0x3b, 0x59, 0x15]);
        assert_eq!(&b[56..64], &[0xcb, 0xd0, 0x83, 0xe8, 0xa2, 0x50, 0x3c, 0x4e]);
    }
    #[test]
    fn hchacha_draft_vector() {
        // draft-irtf-cfrg-xchacha §2.2.1
        let key: Vec<u8> = (0u8..32).collect();
        let nonce = [0, 0, 0, 9, 0, 0, 0, 0x4a, 0, 0, 0, 0, 0x31, 0x41, 0x59, 0x27];
        let k = hchacha(&key, &nonce, 20);
        assert_eq!(&k[0..8], &[0x82, 0x41, 0x3b, 0x42, 0x27, 0xb2, 0x7b, 0xfe]);
        assert_eq!(&k[24..32], &[0xc1, 0x2e, 0xc4, 0x13, 0x26, 0xd3, 0xec, 0xdc]);
    }
}
