//! cxsim — deterministic simulator for cryptoxide's stateful objects.
//!
//!   cxsim run        --scenario S --runs N [--start I] [--seed X] [--jobs J] [--tier quick|thorough]
//!                    [--cfg NAME] [--part FILE] [--replay-dir DIR] [--property ID] [--transcript FILE]
//!   cxsim replay     FILE            (exit 1 + "REPRODUCED ..." when the trace still fails)
//!   cxsim dump       --scenario S --index I [--seed X] [--tier T]     (trace JSON on stdout)
//!   cxsim digest     FILE            (per-op output digests of a trace, for cross-build location)
//!   cxsim list

mod guard;
mod json;
mod model;
mod rng;
mod runner;
mod scn;
mod shrink;
mod trace;

use json::J;
use std::collections::HashMap;
use trace::{Obs, Tier, Trace};

fn args_map(args: &[String]) -> (HashMap<String, String>, Vec<String>) {
    let mut m = HashMap::new();
    let mut pos = Vec::new();
    let mut i = 0;
    while i < args.len() {
        if let Some(k) = args[i].strip_prefix("--") {
            if i + 1 < args.len() && !args[i + 1].starts_with("--") {
                m.insert(k.to_string(), args[i + 1].clone());
                i += 2;
            } else {
                m.insert(k.to_string(), "1".to_string());
                i += 1;
            }
        } else {
            pos.push(args[i].clone());
            i += 1;
        }
    }
    (m, pos)
}

fn harness_error(msg: &str) -> ! {
    eprintln!("HARNESS-ERROR: {}", msg);
    std::process::exit(2);
}

fn load_trace(path: &str) -> (J, &'static dyn trace::Scenario, Trace) {
    let text = std::fs::read_to_string(path).unwrap_or_else(|e| harness_error(&format!("cannot read {}: {}", path, e)));
    let j = json::parse(&text).unwrap_or_else(|e| harness_error(&format!("bad json in {}: {}", path, e)));
    let sname = j.get("scenario").and_then(|x| x.as_str()).unwrap_or_else(|| harness_error("no scenario in replay file")).to_string();
    let s = scn::by_name(&sname).unwrap_or_else(|| harness_error(&format!("unknown scenario {}", sname)));
    let t = Trace::from_json(&j, s.kinds()).unwrap_or_else(|e| harness_error(&format!("bad trace: {}", e)));
    (j, s, t)
}

fn main() {
    guard::install_silent_hook();
    let argv: Vec<String> = std::env::args().collect();
    if argv.len() < 2 {
        harness_error("usage: cxsim run|replay|dump|digest|list ...");
    }
    let (a, pos) = args_map(&argv[2..]);
    let seed: u64 = a.get("seed").map(|s| s.parse().unwrap_or_else(|_| harness_error("bad --seed"))).unwrap_or(1);
    let tier = match a.get("tier").map(|s| s.as_str()) {
        Some("thorough") => Tier::Thorough,
        _ => Tier::Quick,
    };
    match argv[1].as_str() {
        "list" => {
            for s in scn::all() {
                println!("{}", s.name());
            }
        }
        "dump" => {
            let s = scn::by_name(a.get("scenario").map(|s| s.as_str()).unwrap_or("")).unwrap_or_else(|| harness_error("unknown --scenario"));
            let idx: u64 = a.get("index").and_then(|s| s.parse().ok()).unwrap_or(0);
            let (rs, t) = runner::gen_trace(s, seed, idx, tier);
            let j = t.to_json(s.kinds()).set("seed", J::U(seed)).set("run_index", J::U(idx)).set("run_seed", J::U(rs));
            print!("{}", j.to_pretty());
        }
        "digest" => {
            let (_, s, t) = load_trace(pos.get(0).unwrap_or_else(|| harness_error("digest FILE")));
            let mut obs = Obs::with_per_op();
            let r = s.execute(&t, &mut obs);
            for l in obs.per_op.unwrap() {
                println!("{}", l);
            }
            println!("total:{}", obs.transcript.hex());
            if let Err(v) = r {
                println!("violation:{}:{}", v.kind, v.step);
            }
        }
        "replay" => {
            let (j, s, t) = load_trace(pos.get(0).unwrap_or_else(|| harness_error("replay FILE")));
            let mut obs = Obs::new();
            match s.execute(&t, &mut obs) {
                Ok(()) => {
                    println!("CLEAN scenario={} ops={}", s.name(), t.ops.len());
                }
                Err(v) => {
                    let named = s.classify(&t, &v).unwrap_or("-");
                    println!("REPRODUCED scenario={} kind={} step={} named={}", s.name(), v.kind, v.step, named);
                    println!("  expected: {}", v.expected);
                    println!("  got:      {}", v.got);
                    println!("  detail:   {}", v.detail);
                    let want_kind = j.get("violation").and_then(|x| x.get("kind")).and_then(|x| x.as_str()).unwrap_or(v.kind).to_string();
                    let want_step = j.get("violation").and_then(|x| x.get("step")).and_then(|x| x.as_u64()).unwrap_or(v.step as u64);
                    if want_kind == v.kind && want_step == v.step as u64 {
                        println!("  identical to the recorded violation: yes");
                    } else {
                        println!("  identical to the recorded violation: NO (recorded kind={} step={})", want_kind, want_step);
                    }
                    std::process::exit(1);
                }
            }
        }
        "run" => {
            let s = scn::by_name(a.get("scenario").map(|s| s.as_str()).unwrap_or("")).unwrap_or_else(|| harness_error("unknown --scenario"));
            let runs: u64 = a.get("runs").and_then(|s| s.parse().ok()).unwrap_or(1000);
            let start: u64 = a.get("start").and_then(|s| s.parse().ok()).unwrap_or(0);
            let jobs: usize = a.get("jobs").and_then(|s| s.parse().ok()).unwrap_or(16);
            let cfg = a.get("cfg").cloned().unwrap_or_else(|| "rel".to_string());
            let property = a.get("property").cloned().unwrap_or_else(|| "?".to_string());
            let replay_dir = a.get("replay-dir").cloned().unwrap_or_else(|| "/verif/replays".to_string());
            let want_tr = a.contains_key("transcript");
            println!("SEED {} scenario={} runs={} start={} jobs={} tier={:?} cfg={}", seed, s.name(), runs, start, jobs, tier, cfg);
            let sum = runner::run(s, seed, start, runs, jobs, tier, want_tr);
            if let Some(p) = a.get("transcript") {
                let mut out = String::with_capacity(sum.transcript.len() * 48);
                for (i, x, y) in &sum.transcript {
                    out.push_str(&format!("{} {:016x}{:016x}\n", i, x, y));
                }
                std::fs::write(p, out).unwrap_or_else(|e| harness_error(&format!("write transcript: {}", e)));
            }
            // minimise + write replay files
            let mins = runner::minimise_all(s, &sum);
            let mut vj = Vec::new();
            for (idx, rseed, t, v, orig_len, named) in &mins {
                let dir = format!("{}/{}", replay_dir, property);
                let _ = std::fs::create_dir_all(&dir);
                let path = format!("{}/{}-{}-{}-{}.json", dir, s.name(), cfg, seed, idx);
                let j = t
                    .to_json(s.kinds())
                    .set("version", J::U(1))
                    .set("property", J::s(&property))
                    .set("build_cfg", J::s(&cfg))
                    .set("seed", J::U(seed))
                    .set("run_index", J::U(*idx))
                    .set("run_seed", J::U(*rseed))
                    .set("violation", v.to_json())
                    .set("named", named.map(J::s).unwrap_or(J::Null))
                    .set("original_len", J::U(*orig_len as u64))
                    .set("minimised", J::Bool(true));
                std::fs::write(&path, j.to_pretty()).unwrap_or_else(|e| harness_error(&format!("write replay: {}", e)));
                println!("FOUND property={} scenario={} kind={} named={} step={} run_index={} replay={}", property, s.name(), v.kind, named.unwrap_or("-"), v.step, idx, path);
                println!("  expected: {}", v.expected);
                println!("  got:      {}", v.got);
                println!("  detail:   {}", v.detail);
                vj.push(J::obj().set("kind", J::s(v.kind)).set("named", named.map(J::s).unwrap_or(J::Null)).set("replay", J::s(&path)).set("run_index", J::U(*idx)).set("ops", J::U(t.ops.len() as u64)).set("original_ops", J::U(*orig_len as u64)));
            }
            let stats = J::O(sum.stats.iter().map(|(k, v)| (k.to_string(), J::U(*v))).collect());
            let part = J::obj()
                .set("scenario", J::s(s.name()))
                .set("build_cfg", J::s(&cfg))
                .set("seed", J::U(seed))
                .set("start", J::U(start))
                .set("evaluations", J::U(sum.evaluations))
                .set("stratified_runs", J::U(s.stratified().min(runs)))
                .set("distinct_nontrivial", J::U(sum.distinct_nontrivial))
                .set("operations_executed", J::U(sum.ops))
                .set("abstract_transitions_covered", J::U(sum.cover.len() as u64))
                .set("abstract_transition_rule", J::s(s.cover_rule()))
                .set("max_position_reached", J::U(sum.max_pos))
                .set("fired", stats)
                .set("violating_runs", J::U(sum.violating_runs))
                .set("violations", J::A(vj))
                .set("samples", J::A(sum.samples.clone()))
                .set("real_vs_stub", J::s(s.real_vs_stub()))
                .set("wall_s", J::F(sum.wall_s))
                .set("runs_per_hour", J::F(if sum.wall_s > 0.0 { sum.evaluations as f64 / sum.wall_s * 3600.0 } else { 0.0 }));
            if let Some(p) = a.get("part") {
                std::fs::write(p, part.to_pretty()).unwrap_or_else(|e| harness_error(&format!("write part: {}", e)));
            }
            println!("DONE scenario={} evaluations={} distinct_nontrivial={} ops={} cover={} violating_runs={} wall_s={:.2}", s.name(), sum.evaluations, sum.distinct_nontrivial, sum.ops, sum.cover.len(), sum.violating_runs, sum.wall_s);
            if !mins.is_empty() {
                std::process::exit(1);
            }
        }
        other => harness_error(&format!("unknown command {}", other)),
    }
}
