//! Seeded search: run indices are spread over worker threads; every run is self-contained
//! (fresh objects, fresh PRNG derived from (VERIF_SEED, scenario, index)); results are merged
//! in run-index order so the worker count cannot change any outcome or log line.

use crate::json::J;
use crate::rng::{fnv64, splitmix64, Rng};
use crate::shrink;
use crate::trace::{Obs, Scenario, Tier, Trace, Violation};
use std::collections::{BTreeMap, BTreeSet, HashSet};
use std::sync::atomic::{AtomicBool, AtomicU64, Ordering};
use std::time::Instant;

pub fn run_seed(base: u64, scenario: &str, idx: u64) -> u64 {
    splitmix64(splitmix64(base ^ fnv64(scenario.as_bytes())) ^ idx.wrapping_mul(0x9E3779B97F4A7C15))
}

pub fn gen_trace(s: &dyn Scenario, base: u64, idx: u64, tier: Tier) -> (u64, Trace) {
    let seed = run_seed(base, s.name(), idx);
    let mut rng = Rng::new(seed);
    (seed, s.generate(&mut rng, idx, tier))
}

pub struct Found {
    pub idx: u64,
    pub seed: u64,
    pub trace: Trace,
    pub violation: Violation,
    pub named: Option<&'static str>,
}

pub struct Summary {
    pub scenario: &'static str,
    pub evaluations: u64,
    pub distinct_nontrivial: u64,
    pub ops: u64,
    pub stats: BTreeMap<&'static str, u64>,
    pub cover: BTreeSet<u32>,
    pub max_pos: u64,
    pub samples: Vec<J>,
    /// first (smallest index) failing run of each violation class
    pub found: Vec<Found>,
    pub violating_runs: u64,
    pub wall_s: f64,
    /// (idx, digest) per run when transcripts were requested
    pub transcript: Vec<(u64, u64, u64)>,
}

struct WorkerOut {
    evaluations: u64,
    ops: u64,
    stats: BTreeMap<&'static str, u64>,
    cover: BTreeSet<u32>,
    max_pos: u64,
    distinct: HashSet<u64>,
    samples: Vec<(u64, J)>,
    found: BTreeMap<String, Found>,
    violating_runs: u64,
    transcript: Vec<(u64, u64, u64)>,
}

pub fn is_nontrivial(s: &dyn Scenario, t: &Trace) -> bool {
    s.nontrivial(t)
}

/// Progress board for the watchdog: per worker, the run it is executing (index + 1; 0 = not running) and a tick that
/// advances with every finished run. The watchdog only ever READS a real clock, and only to decide that an operation of
/// the code under test never returned; it takes no part in generating, executing or logging a run.
static CURRENT: [AtomicU64; 64] = [const { AtomicU64::new(0) }; 64];
static TICK: [AtomicU64; 64] = [const { AtomicU64::new(0) }; 64];
static ALL_DONE: AtomicBool = AtomicBool::new(false);

fn watchdog(scenario: &'static str, jobs: usize) {
    let limit: u64 = std::env::var("VERIF_WATCHDOG_S").ok().and_then(|v| v.parse().ok()).unwrap_or(60);
    if limit == 0 || cfg!(miri) {
        return;
    }
    let mut last = vec![(0u64, Instant::now()); jobs];
    while !ALL_DONE.load(Ordering::Relaxed) {
        std::thread::sleep(std::time::Duration::from_millis(250));
        for w in 0..jobs {
            let t = TICK[w].load(Ordering::Relaxed);
            let cur = CURRENT[w].load(Ordering::Relaxed);
            if t != last[w].0 || cur == 0 {
                last[w] = (t, Instant::now());
            } else if last[w].1.elapsed().as_secs() >= limit {
                println!("STUCK scenario={} run_index={} seconds={}", scenario, cur - 1, last[w].1.elapsed().as_secs());
                std::process::exit(4);
            }
        }
    }
}

pub fn run(s: &'static dyn Scenario, base_seed: u64, start: u64, runs: u64, jobs: usize, tier: Tier, want_transcript: bool) -> Summary {
    let t0 = Instant::now();
    let jobs = jobs.max(1).min(64);
    let mut outs: Vec<WorkerOut> = Vec::new();
    ALL_DONE.store(false, Ordering::Relaxed);
    for w in 0..64 {
        CURRENT[w].store(0, Ordering::Relaxed);
    }
    std::thread::scope(|sc| {
        let mut hs = Vec::new();
        let name = s.name();
        sc.spawn(move || watchdog(name, jobs));
        for w in 0..jobs {
            hs.push(sc.spawn(move || {
                let mut o = WorkerOut {
                    evaluations: 0,
                    ops: 0,
                    stats: BTreeMap::new(),
                    cover: BTreeSet::new(),
                    max_pos: 0,
                    distinct: HashSet::new(),
                    samples: Vec::new(),
                    found: BTreeMap::new(),
                    violating_runs: 0,
                    transcript: Vec::new(),
                };
                let mut idx = start + w as u64;
                while idx < start + runs {
                    let (seed, trace) = gen_trace(s, base_seed, idx, tier);
                    let mut obs = Obs::new();
                    CURRENT[w].store(idx + 1, Ordering::Relaxed);
                    let res = s.execute(&trace, &mut obs);
                    CURRENT[w].store(0, Ordering::Relaxed);
                    TICK[w].fetch_add(1, Ordering::Relaxed);
                    o.evaluations += 1;
                    o.ops += obs.ops;
                    for (k, v) in obs.stats.iter() {
                        *o.stats.entry(k).or_insert(0) += v;
                    }
                    for c in obs.cover.iter() {
                        o.cover.insert(*c);
                    }
                    o.max_pos = o.max_pos.max(obs.max_pos);
                    if is_nontrivial(s, &trace) {
                        o.distinct.insert(trace.hash());
                    }
                    if want_transcript {
                        let (a, b) = obs.transcript.value();
                        o.transcript.push((idx, a, b));
                    }
                    // a few sample traces: the first non-trivial ones of worker 0's stripe
                    if o.samples.len() < 3 && is_nontrivial(s, &trace) && idx >= start + s.stratified().min(runs / 2) {
                        o.samples.push((idx, trace.to_json(s.kinds()).set("run_index", J::U(idx)).set("run_seed", J::U(seed))));
                    }
                    if let Err(v) = res {
                        o.violating_runs += 1;
                        let named = s.classify(&trace, &v);
                        let class = format!("{}|{}", v.kind, named.unwrap_or("-"));
                        o.found.entry(class).or_insert(Found { idx, seed, trace, violation: v, named });
                    }
                    idx += jobs as u64;
                }
                o
            }));
        }
        for h in hs {
            outs.push(h.join().expect("worker crashed"));
        }
        ALL_DONE.store(true, Ordering::Relaxed);
    });

    let mut sum = Summary {
        scenario: s.name(),
        evaluations: 0,
        distinct_nontrivial: 0,
        ops: 0,
        stats: BTreeMap::new(),
        cover: BTreeSet::new(),
        max_pos: 0,
        samples: Vec::new(),
        found: Vec::new(),
        violating_runs: 0,
        wall_s: 0.0,
        transcript: Vec::new(),
    };
    let mut distinct: HashSet<u64> = HashSet::new();
    let mut found: BTreeMap<String, Found> = BTreeMap::new();
    let mut samples: Vec<(u64, J)> = Vec::new();
    for o in outs {
        sum.evaluations += o.evaluations;
        sum.ops += o.ops;
        sum.violating_runs += o.violating_runs;
        sum.max_pos = sum.max_pos.max(o.max_pos);
        for (k, v) in o.stats {
            *sum.stats.entry(k).or_insert(0) += v;
        }
        for c in o.cover {
            sum.cover.insert(c);
        }
        if distinct.is_empty() {
            distinct = o.distinct;
        } else {
            distinct.extend(o.distinct);
        }
        samples.extend(o.samples);
        sum.transcript.extend(o.transcript);
        for (k, f) in o.found {
            match found.get(&k) {
                Some(e) if e.idx <= f.idx => {}
                _ => {
                    found.insert(k, f);
                }
            }
        }
    }
    sum.distinct_nontrivial = distinct.len() as u64;
    samples.sort_by_key(|x| x.0);
    sum.samples = samples.into_iter().take(3).map(|x| x.1).collect();
    sum.transcript.sort();
    let mut fv: Vec<Found> = found.into_values().collect();
    fv.sort_by_key(|f| f.idx);
    sum.found = fv;
    sum.wall_s = t0.elapsed().as_secs_f64();
    sum
}

/// Shrink every found class; returns (minimised trace, violation, original length)
pub fn minimise_all(s: &dyn Scenario, sum: &Summary) -> Vec<(u64, u64, Trace, Violation, usize, Option<&'static str>)> {
    let mut out = Vec::new();
    for f in sum.found.iter().take(8) {
        let (t, v) = shrink::minimise(s, &f.trace, &f.violation);
        let named = s.classify(&t, &v);
        out.push((f.idx, f.seed, t, v, f.trace.ops.len(), named));
    }
    out
}
