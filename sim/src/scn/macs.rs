//! Shared wrappers over the MAC objects and the legacy digest objects (C08, C09, C20).

use cryptoxide::digest::Digest;
use cryptoxide::hmac::Hmac;
use cryptoxide::mac::Mac;
use cryptoxide::poly1305::Poly1305;
use cryptoxide::{blake2b, blake2s, ripemd160, sha1, sha2, sha3};

pub trait LifeObj {
    fn input(&mut self, d: &[u8]);
    /// raw = false: result() / Digest::result into a zeroed exact buffer; raw = true: raw_result into a dirty exact buffer
    fn result(&mut self, raw: bool) -> Vec<u8>;
    /// raw_result / Digest::result into a buffer of the given (possibly wrong) size
    fn result_into(&mut self, size: usize) -> Vec<u8>;
    fn reset(&mut self);
    fn reset_with_key(&mut self, _k: &[u8]) {
        unreachable!()
    }
    /// the object's inherent / Digest-side reset, documented as "the state after calling `new`" (legacy BLAKE2 only)
    fn reset_plain(&mut self) {
        unreachable!()
    }
    fn fork(&self) -> Option<Box<dyn LifeObj>>;
    fn out_len(&self) -> usize;
}

/// result buffer pre-filled with garbage, at a misalignment that depends on its size
fn dirty(n: usize) -> crate::rng::Aligned {
    crate::rng::Aligned::dirty(0xbadc0ffee ^ n as u64, n)
}

pub struct MacN<T: Mac>(pub T);
impl<T: Mac> LifeObj for MacN<T> {
    fn input(&mut self, d: &[u8]) {
        self.0.input(d)
    }
    fn result(&mut self, raw: bool) -> Vec<u8> {
        if raw {
            let n = self.0.output_bytes();
            let mut b = dirty(n);
            self.0.raw_result(&mut b);
            b.to_vec()
        } else {
            self.0.result().code().to_vec()
        }
    }
    fn result_into(&mut self, size: usize) -> Vec<u8> {
        let mut b = dirty(size);
        self.0.raw_result(&mut b);
        b.to_vec()
    }
    fn reset(&mut self) {
        Mac::reset(&mut self.0)
    }
    fn fork(&self) -> Option<Box<dyn LifeObj>> {
        None
    }
    fn out_len(&self) -> usize {
        self.0.output_bytes()
    }
}

pub struct MacC<T: Mac + Clone + 'static>(pub T);
impl<T: Mac + Clone + 'static> LifeObj for MacC<T> {
    fn input(&mut self, d: &[u8]) {
        self.0.input(d)
    }
    fn result(&mut self, raw: bool) -> Vec<u8> {
        if raw {
            let n = self.0.output_bytes();
            let mut b = dirty(n);
            self.0.raw_result(&mut b);
            b.to_vec()
        } else {
            self.0.result().code().to_vec()
        }
    }
    fn result_into(&mut self, size: usize) -> Vec<u8> {
        let mut b = dirty(size);
        self.0.raw_result(&mut b);
        b.to_vec()
    }
    fn reset(&mut self) {
        Mac::reset(&mut self.0)
    }
    fn fork(&self) -> Option<Box<dyn LifeObj>> {
        Some(Box::new(MacC(self.0.clone())))
    }
    fn out_len(&self) -> usize {
        self.0.output_bytes()
    }
}

macro_rules! blake_mac {
    ($w:ident, $t:ty) => {
        pub struct $w(pub $t);
        impl LifeObj for $w {
            fn input(&mut self, d: &[u8]) {
                Mac::input(&mut self.0, d)
            }
            fn result(&mut self, raw: bool) -> Vec<u8> {
                if raw {
                    let n = Mac::output_bytes(&self.0);
                    let mut b = dirty(n);
                    Mac::raw_result(&mut self.0, &mut b);
                    b.to_vec()
                } else {
                    Mac::result(&mut self.0).code().to_vec()
                }
            }
            fn result_into(&mut self, size: usize) -> Vec<u8> {
                let mut b = dirty(size);
                Mac::raw_result(&mut self.0, &mut b);
                b.to_vec()
            }
            fn reset(&mut self) {
                Mac::reset(&mut self.0)
            }
            fn reset_with_key(&mut self, k: &[u8]) {
                self.0.reset_with_key(k)
            }
            fn reset_plain(&mut self) {
                cryptoxide::digest::Digest::reset(&mut self.0)
            }
            fn fork(&self) -> Option<Box<dyn LifeObj>> {
                Some(Box::new($w(self.0.clone())))
            }
            fn out_len(&self) -> usize {
                Mac::output_bytes(&self.0)
            }
        }
    };
}
blake_mac!(B2bMac, blake2b::Blake2b);
blake_mac!(B2sMac, blake2s::Blake2s);

pub struct DigC<T: Digest + Clone + 'static>(pub T);
impl<T: Digest + Clone + 'static> LifeObj for DigC<T> {
    fn input(&mut self, d: &[u8]) {
        // the trait's convenience entry point for text, whenever the chunk happens to be text of odd length
        match core::str::from_utf8(d) {
            Ok(s) if d.len() % 2 == 1 => Digest::input_str(&mut self.0, s),
            _ => Digest::input(&mut self.0, d),
        }
    }
    fn result(&mut self, raw: bool) -> Vec<u8> {
        let n = Digest::output_bytes(&self.0);
        if raw {
            let mut b = dirty(n);
            Digest::result(&mut self.0, &mut b);
            b.to_vec()
        } else {
            // the trait's hexadecimal convenience result, decoded again
            let hex = Digest::result_str(&mut self.0);
            let hb = hex.as_bytes();
            let nib = |c: u8| -> u8 {
                match c {
                    b'0'..=b'9' => c - b'0',
                    b'a'..=b'f' => c - b'a' + 10,
                    _ => 0xff, // upper case or anything else is not the documented format: shows as a wrong digest
                }
            };
            let mut b = vec![0u8; hb.len() / 2];
            for (i, o) in b.iter_mut().enumerate() {
                let (h, l) = (nib(hb[2 * i]), nib(hb[2 * i + 1]));
                *o = if h > 15 || l > 15 { !0 } else { (h << 4) | l };
            }
            if hb.len() != 2 * n {
                b.push(0xee); // wrong length shows as a mismatch
            }
            b
        }
    }
    fn result_into(&mut self, size: usize) -> Vec<u8> {
        let mut b = dirty(size);
        Digest::result(&mut self.0, &mut b);
        b.to_vec()
    }
    fn reset(&mut self) {
        Digest::reset(&mut self.0)
    }
    fn fork(&self) -> Option<Box<dyn LifeObj>> {
        Some(Box::new(DigC(self.0.clone())))
    }
    fn out_len(&self) -> usize {
        Digest::output_bytes(&self.0)
    }
}

#[derive(Clone, Copy)]
pub struct DigestInfo {
    /// legacy digest name
    pub name: &'static str,
    /// name of the same algorithm in scn::hashctx (one-call ground truth)
    pub hashing: &'static str,
    /// block size written down from the standards (FIPS 180-4, FIPS 202, RIPEMD-160, RFC 7693)
    pub spec_block: usize,
    /// digest size in bytes (0 = taken from `outlen`)
    pub spec_out: usize,
    /// maximum output length for the parametrised ones
    pub max_out: usize,
}

pub const DIGESTS: &[DigestInfo] = &[
    DigestInfo { name: "sha1", hashing: "sha1", spec_block: 64, spec_out: 20, max_out: 0 },
    DigestInfo { name: "sha224", hashing: "sha224", spec_block: 64, spec_out: 28, max_out: 0 },
    DigestInfo { name: "sha256", hashing: "sha256", spec_block: 64, spec_out: 32, max_out: 0 },
    DigestInfo { name: "sha384", hashing: "sha384", spec_block: 128, spec_out: 48, max_out: 0 },
    DigestInfo { name: "sha512", hashing: "sha512", spec_block: 128, spec_out: 64, max_out: 0 },
    DigestInfo { name: "sha512trunc224", hashing: "sha512_224", spec_block: 128, spec_out: 28, max_out: 0 },
    DigestInfo { name: "sha512trunc256", hashing: "sha512_256", spec_block: 128, spec_out: 32, max_out: 0 },
    DigestInfo { name: "sha3_224", hashing: "sha3_224", spec_block: 144, spec_out: 28, max_out: 0 },
    DigestInfo { name: "sha3_256", hashing: "sha3_256", spec_block: 136, spec_out: 32, max_out: 0 },
    DigestInfo { name: "sha3_384", hashing: "sha3_384", spec_block: 104, spec_out: 48, max_out: 0 },
    DigestInfo { name: "sha3_512", hashing: "sha3_512", spec_block: 72, spec_out: 64, max_out: 0 },
    DigestInfo { name: "keccak224", hashing: "keccak224", spec_block: 144, spec_out: 28, max_out: 0 },
    DigestInfo { name: "keccak256", hashing: "keccak256", spec_block: 136, spec_out: 32, max_out: 0 },
    DigestInfo { name: "keccak384", hashing: "keccak384", spec_block: 104, spec_out: 48, max_out: 0 },
    DigestInfo { name: "keccak512", hashing: "keccak512", spec_block: 72, spec_out: 64, max_out: 0 },
    DigestInfo { name: "ripemd160", hashing: "ripemd160", spec_block: 64, spec_out: 20, max_out: 0 },
    DigestInfo { name: "blake2b", hashing: "blake2b_dyn", spec_block: 128, spec_out: 0, max_out: 64 },
    DigestInfo { name: "blake2s", hashing: "blake2s_dyn", spec_block: 64, spec_out: 0, max_out: 32 },
];

pub fn digest_info(name: &str) -> Option<DigestInfo> {
    DIGESTS.iter().copied().find(|d| d.name == name)
}

/// dispatch on the legacy digest type
macro_rules! with_digest {
    ($name:expr, $outlen:expr, $f:ident) => {
        match $name {
            "sha1" => $f!(sha1::Sha1::new()),
            "sha224" => $f!(sha2::Sha224::new()),
            "sha256" => $f!(sha2::Sha256::new()),
            "sha384" => $f!(sha2::Sha384::new()),
            "sha512" => $f!(sha2::Sha512::new()),
            "sha512trunc224" => $f!(sha2::Sha512Trunc224::new()),
            "sha512trunc256" => $f!(sha2::Sha512Trunc256::new()),
            "sha3_224" => $f!(sha3::Sha3_224::new()),
            "sha3_256" => $f!(sha3::Sha3_256::new()),
            "sha3_384" => $f!(sha3::Sha3_384::new()),
            "sha3_512" => $f!(sha3::Sha3_512::new()),
            "keccak224" => $f!(sha3::Keccak224::new()),
            "keccak256" => $f!(sha3::Keccak256::new()),
            "keccak384" => $f!(sha3::Keccak384::new()),
            "keccak512" => $f!(sha3::Keccak512::new()),
            "ripemd160" => $f!(ripemd160::Ripemd160::new()),
            "blake2b" => $f!(blake2b::Blake2b::new($outlen)),
            "blake2s" => $f!(blake2s::Blake2s::new($outlen)),
            other => panic!("unknown digest {}", other),
        }
    };
}

pub fn make_hmac(digest: &str, outlen: usize, key: &[u8]) -> Box<dyn LifeObj> {
    macro_rules! mk {
        ($d:expr) => {
            Box::new(MacN(Hmac::new($d, key)))
        };
    }
    with_digest!(digest, outlen, mk)
}

pub fn make_digest(digest: &str, outlen: usize) -> Box<dyn LifeObj> {
    macro_rules! mk {
        ($d:expr) => {
            Box::new(DigC($d))
        };
    }
    with_digest!(digest, outlen, mk)
}

/// (block_size(), output_bytes()) as reported by the legacy digest object
pub fn digest_reported(digest: &str, outlen: usize) -> (usize, usize) {
    macro_rules! mk {
        ($d:expr) => {{
            let d = $d;
            (Digest::block_size(&d), Digest::output_bytes(&d))
        }};
    }
    with_digest!(digest, outlen, mk)
}

pub fn make_poly(key: &[u8]) -> Box<dyn LifeObj> {
    let mut k = [0u8; 32];
    k.copy_from_slice(&key[..32]);
    Box::new(MacC(Poly1305::new(&k)))
}

pub fn make_blake_mac(s: bool, outlen: usize, key: &[u8]) -> Box<dyn LifeObj> {
    if s {
        Box::new(B2sMac(if key.is_empty() { blake2s::Blake2s::new(outlen) } else { blake2s::Blake2s::new_keyed(outlen, key) }))
    } else {
        Box::new(B2bMac(if key.is_empty() { blake2b::Blake2b::new(outlen) } else { blake2b::Blake2b::new_keyed(outlen, key) }))
    }
}

/// the legacy static one-call functions `Blake2b::blake2b(out, input, key)` / `Blake2s::blake2s(out, input, key)`
pub fn blake_static_oneshot(s: bool, outlen: usize, input: &[u8], key: &[u8]) -> Vec<u8> {
    let mut out = dirty(outlen);
    if s {
        blake2s::Blake2s::blake2s(&mut out, input, key);
    } else {
        blake2b::Blake2b::blake2b(&mut out, input, key);
    }
    out.to_vec()
}
