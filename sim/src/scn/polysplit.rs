//! C05 — Poly1305 tag for every key, message and split.
//!
//! Delivery dimension: the message reaches the object as any sequence of `input` fragments
//! (staging-buffer paths: partial+partial, partial completed exactly, partial then many blocks),
//! forks mid-message, results into dirty oversized buffers.
//! Oracle: independent big-integer model of RFC 8439 §2.5.

use crate::guard::guarded;
use crate::model::poly1305::poly1305;
use crate::rng::{data, Aligned, Rng};
use crate::trace::{Obs, Op, Scenario, Tier, Trace, Violation};
use cryptoxide::mac::Mac;
use cryptoxide::poly1305::Poly1305;

pub const K_INPUT: u8 = 0;
pub const K_FORK: u8 = 1;
pub const K_RESULT: u8 = 2; // arg: 0 = result(), n>=16 = raw_result into a dirty n-byte buffer
const KINDS: &[&str] = &["input", "fork", "result"];

pub struct PolySplit;

/// crafted 16-byte blocks (RFC 8439 A.3 wrap-around vectors and relatives); Op::arg = index+1
pub const CRAFTED: [[u8; 16]; 10] = [
    [0xff; 16],
    [0xf0, 0xff, 0xff, 0xff, 0xff, 0xff, 0xff, 0xff, 0xff, 0xff, 0xff, 0xff, 0xff, 0xff, 0xff, 0xff],
    [0x11, 0, 0, 0, 0, 0, 0, 0, 0, 0, 0, 0, 0, 0, 0, 0],
    [0xfb, 0xfe, 0xfe, 0xfe, 0xfe, 0xfe, 0xfe, 0xfe, 0xfe, 0xfe, 0xfe, 0xfe, 0xfe, 0xfe, 0xfe, 0xfe],
    [0x01; 16],
    [0xfd, 0xff, 0xff, 0xff, 0xff, 0xff, 0xff, 0xff, 0xff, 0xff, 0xff, 0xff, 0xff, 0xff, 0xff, 0xff],
    [0x02, 0, 0, 0, 0, 0, 0, 0, 0, 0, 0, 0, 0, 0, 0, 0],
    [0xe3, 0x35, 0x94, 0xd7, 0x50, 0x5e, 0x43, 0xb9, 0, 0, 0, 0, 0, 0, 0, 0],
    [0x33, 0x94, 0xd7, 0x50, 0x5e, 0x43, 0x79, 0xcd, 0x01, 0, 0, 0, 0, 0, 0, 0],
    [0x01, 0, 0, 0, 0, 0, 0, 0, 0, 0, 0, 0, 0, 0, 0, 0],
];

/// key classes of the property's own quantifier
pub fn make_key(class: u64, seed: u64) -> [u8; 32] {
    let mut k = [0u8; 32];
    match class {
        1 => k = [0xff; 32],
        2 | 3 | 4 => {
            k[0] = (class - 2) as u8; // r = 0, 1, 2
            for b in k[16..].iter_mut() {
                *b = 0xff;
            }
        }
        5 => k[0] = 2,  // r = 2, s = 0
        6 => k[0] = 1,  // r = 1, s = 0
        7 => {
            // unclamped r (all bits set), random s
            k.copy_from_slice(&data(seed, 32));
            for b in k[..16].iter_mut() {
                *b = 0xff;
            }
        }
        _ => k.copy_from_slice(&data(seed, 32)),
    }
    k
}

pub fn frag_len(rng: &mut Rng, leftover: usize, big: bool) -> usize {
    let rem = 16 - (leftover % 16);
    match rng.below(20) {
        0 => 0,
        1 => 1,
        2 => 15,
        3 => 16,
        4 => 17,
        5 => 31,
        6 => 32,
        7 => 33,
        8 | 9 => rem,
        10 => rem.saturating_sub(1),
        11 => rem + 1,
        12 => rem + 16,
        13 => rem + 48,
        14 => {
            if big && rng.chance(1, 20) {
                crate::scn::hashctx::big_len(rng, false)
            } else if big {
                rng.range(64, 4096) as usize
            } else {
                rng.below(80) as usize
            }
        }
        _ => rng.below(80) as usize,
    }
}

/// Op::arg >= FORCED: a block SOLVED at execution time so that the accumulator takes a chosen extreme value right after
/// it (model::poly1305::forced_target(arg - FORCED)); the piece is [bytes completing the pending block] ||
/// [optional filler block] || solved block || 0xff bytes up to `len`. A pure function of (key, bytes fed so far, op).
pub const FORCED: u64 = 1000;

fn forced_bytes(key: &[u8; 32], log: &[u8], op: &Op) -> Option<Vec<u8>> {
    use crate::model::poly1305::{accumulator_after, forced_target, solve_block};
    let target = forced_target(op.arg - FORCED);
    let mut piece: Vec<u8> = Vec::new();
    let lo = log.len() % 16;
    if lo != 0 {
        piece.extend_from_slice(&data(op.seed ^ 0x11, 16 - lo));
    }
    let mut base = log.to_vec();
    base.extend_from_slice(&piece);
    for k in 0..12u64 {
        let mut cand = base.clone();
        let mut extra: Vec<u8> = Vec::new();
        if k > 0 {
            extra = data(op.seed.wrapping_add(k) | 16, 16);
            cand.extend_from_slice(&extra);
        }
        let acc = accumulator_after(key, &cand);
        if let Some(m) = solve_block(key, &acc, &target) {
            piece.extend_from_slice(&extra);
            piece.extend_from_slice(&m);
            let want = (op.len as usize).min(256).max(16);
            let tail = want - 16;
            piece.extend(std::iter::repeat(0xffu8).take(tail));
            return Some(piece);
        }
    }
    None
}

fn frag_bytes(op: &Op) -> Vec<u8> {
    let len = (op.len as usize).min(300_000);
    if op.arg >= 1 && op.arg as usize <= CRAFTED.len() {
        // crafted block repeated/truncated to len
        let b = &CRAFTED[op.arg as usize - 1];
        (0..len).map(|i| b[i % 16]).collect()
    } else {
        Aligned::new(op.seed, len, (op.off % 32) as usize).get().to_vec()
    }
}

struct Handle {
    obj: Poly1305,
    log: Vec<u8>,
}

fn finish(key: &[u8; 32], hd: Handle, raw: usize, step: usize, obs: &mut Obs) -> Result<(), Violation> {
    let Handle { mut obj, log } = hd;
    let m = poly1305(key, &log);
    if m.acc_small_residue {
        obs.hit("probe.accumulator_in_0..4_second_representative_above_p");
    }
    if log.len() % 16 != 0 {
        obs.hit("probe.final_partial_block");
    }
    let got: Vec<u8> = if raw >= 16 {
        obs.hit("fault.dirty_destination");
        let mut buf = data(0xd1d1 ^ raw as u64, raw.min(32));
        guarded(|| obj.raw_result(&mut buf)).map_err(|e| Violation::new("unexpected-panic", step, "raw_result", e, "Poly1305"))?;
        buf[..16].to_vec()
    } else {
        guarded(|| obj.result().code().to_vec()).map_err(|e| Violation::new("unexpected-panic", step, "result", e, "Poly1305"))?
    };
    obs.out(&got);
    if got[..] != m.tag[..] {
        return Err(Violation::bytes("tag-mismatch", step, &m.tag, &got, format!("Poly1305 over {} bytes vs RFC 8439 big-integer model", log.len())));
    }
    Ok(())
}

impl Scenario for PolySplit {
    fn name(&self) -> &'static str {
        "polysplit"
    }
    fn kinds(&self) -> &'static [&'static str] {
        KINDS
    }
    fn nontrivial_kind(&self, k: u8) -> bool {
        k == K_FORK
    }
    fn nontrivial(&self, t: &Trace) -> bool {
        // the message reaches the object in >= 2 non-empty fragments, or a fork happened
        t.ops.iter().filter(|o| o.k == K_INPUT && o.len > 0).count() >= 2 || t.ops.iter().any(|o| o.k == K_FORK)
    }
    fn stratified(&self) -> u64 {
        // every message length 0..=80, as one call and split at every position, for 8 key classes
        8 * 81 * 4
    }
    fn real_vs_stub(&self) -> &'static str {
        "real: poly1305::Poly1305 (new, Mac::input, result, raw_result, clone); stub: scheduler/PRNG, big-integer Poly1305 model (harness side)"
    }
    fn cover_rule(&self) -> &'static str {
        "(key class, staging-buffer fill before the fragment {0,1,15,other}, fragment class relative to the space left {0,<rem,=rem,<rem+16,whole blocks,blocks+tail})"
    }
    fn generate(&self, rng: &mut Rng, idx: u64, tier: Tier) -> Trace {
        let mut t = Trace::new("polysplit", "poly1305");
        if idx < self.stratified() {
            // enumerated: key class x length x split style
            let class = idx % 8;
            let len = ((idx / 8) % 81) as usize;
            let style = idx / (8 * 81);
            t.set_p("key_class", class);
            t.set_p("key_seed", 1000 + class);
            let seed = 5000 + idx;
            match style {
                0 => t.ops.push(Op::new(0, K_INPUT).len(len).seed(seed)),
                1 => {
                    // byte by byte
                    for i in 0..len {
                        t.ops.push(Op::new(0, K_INPUT).len(1).seed(seed + i as u64 * 7919));
                    }
                }
                2 => {
                    let a = len / 2;
                    t.ops.push(Op::new(0, K_INPUT).len(a).seed(seed));
                    t.ops.push(Op::new(0, K_INPUT).len(len - a).seed(seed + 1));
                }
                _ => {
                    let a = len.min(15);
                    t.ops.push(Op::new(0, K_INPUT).len(a).seed(1));
                    t.ops.push(Op::new(0, K_INPUT).len(len - a).seed(1));
                }
            }
            t.ops.push(Op::new(0, K_RESULT));
            return t;
        }
        t.set_p("key_class", rng.below(12)); // 8..11 = random too
        t.set_p("key_seed", rng.data_seed());
        let crafted_bias = rng.chance(1, 3);
        let forced_bias = rng.chance(1, 8);
        let big = tier == Tier::Thorough || rng.chance(1, 10);
        let max_handles = rng.range(1, 3) as usize;
        let nops = if rng.chance(1, 300) { rng.range(300, 700) } else { rng.range(1, 16) };
        let fork_w = if rng.chance(1, 2) { 2 } else { 0 };
        let mut left = vec![Some(0usize)];
        for _ in 0..nops {
            let alive: Vec<usize> = left.iter().enumerate().filter(|(_, x)| x.is_some()).map(|(i, _)| i).collect();
            if alive.is_empty() {
                break;
            }
            let h = *rng.pick(&alive);
            let r = rng.below(20);
            if r < fork_w && left.len() < max_handles {
                t.ops.push(Op::new(h as u8, K_FORK));
                let l = left[h];
                left.push(l);
            } else if r == 19 {
                let raw = if rng.chance(1, 2) { 0 } else { rng.range(16, 32) };
                t.ops.push(Op::new(h as u8, K_RESULT).arg(raw));
                left[h] = None;
            } else {
                let lo = left[h].unwrap();
                let (len, arg, seed) = if forced_bias && rng.chance(1, 3) {
                    // a solved block (possibly followed by one or two 0xff blocks in the same call)
                    (16 * rng.range(1, 3) as usize, FORCED + rng.below(16 * 130), rng.data_seed())
                } else if crafted_bias && rng.chance(1, 2) {
                    (16 * rng.range(1, 3) as usize, rng.range(1, CRAFTED.len() as u64), 0)
                } else {
                    let seed = match rng.below(6) { 0 => 0, 1 => 1, _ => rng.data_seed() };
                    (frag_len(rng, lo, big), 0, seed)
                };
                t.ops.push(Op::new(h as u8, K_INPUT).len(len).arg(arg).seed(seed).off(rng.below(32) as u8));
                left[h] = Some(if arg >= FORCED { 0 } else { (lo + len) % 16 });
            }
        }
        t
    }

    fn execute(&self, t: &Trace, obs: &mut Obs) -> Result<(), Violation> {
        let class = t.p("key_class");
        let key = make_key(class, t.p("key_seed"));
        let first = guarded(|| Poly1305::new(&key)).map_err(|e| Violation::new("unexpected-panic", 0, "new", e, "Poly1305"))?;
        let mut hs: Vec<Option<Handle>> = vec![Some(Handle { obj: first, log: Vec::new() })];
        for (i, op) in t.ops.iter().enumerate() {
            let h = op.h as usize;
            if h >= hs.len() || hs[h].is_none() {
                continue;
            }
            obs.begin_op(i);
            match op.k {
                K_INPUT => {
                    let hd = hs[h].as_mut().unwrap();
                    let d = if op.arg >= FORCED {
                        match forced_bytes(&key, &hd.log, op) {
                            Some(d) => {
                                obs.hit("fault.block_solved_to_force_an_extreme_accumulator");
                                d
                            }
                            None => {
                                obs.hit("skipped.no_solvable_block_for_this_target");
                                continue;
                            }
                        }
                    } else {
                        frag_bytes(op)
                    };
                    let lo = hd.log.len() % 16;
                    let loc = match lo { 0 => 0, 1 => 1, 15 => 2, _ => 3 };
                    obs.cov(((class.min(15) as u32) << 8) | (loc << 4) | crate::scn::hashctx::chunk_class(d.len(), lo, 16));
                    if op.arg != 0 && op.arg < FORCED {
                        obs.hit("fault.crafted_wraparound_block");
                    }
                    if d.is_empty() {
                        obs.hit("fault.empty_fragment");
                    }
                    if lo != 0 && d.len() == 16 - lo {
                        obs.hit("probe.partial_block_completed_exactly");
                    }
                    if lo != 0 && d.len() >= 16 - lo + 32 {
                        obs.hit("probe.partial_then_many_blocks");
                    }
                    guarded(|| hd.obj.input(&d)).map_err(|e| Violation::new("unexpected-panic", i, "input accepted", e, "Poly1305"))?;
                    hd.log.extend_from_slice(&d);
                    obs.pos(hd.log.len() as u64);
                }
                K_FORK => {
                    if hs.len() >= 6 {
                        continue;
                    }
                    obs.hit("fault.fork_midstream");
                    let hd = hs[h].as_ref().unwrap();
                    let n = Handle { obj: hd.obj.clone(), log: hd.log.clone() };
                    hs.push(Some(n));
                }
                K_RESULT => {
                    let hd = hs[h].take().unwrap();
                    finish(&key, hd, op.arg as usize, i, obs)?;
                }
                _ => {}
            }
        }
        let n = t.ops.len();
        for slot in hs.into_iter() {
            if let Some(hd) = slot {
                finish(&key, hd, 0, n, obs)?;
            }
        }
        Ok(())
    }
}
