//! C04 (DRG) — for every seed and every sequence of requests the generator returns exactly the
//! successive bytes of the ChaCha keystream for that seed, whatever the destination held before.
//!
//! Fault kind: "dirty disk" — destination buffers pre-filled with PRNG garbage.
//! Oracle: ONE `process` call of a fresh `ChaCha<R>::new(seed, [0;12])` over zeros.

use crate::guard::guarded;
use crate::rng::{data, Rng};
use crate::trace::{Obs, Op, Scenario, Tier, Trace, Violation};
use cryptoxide::chacha20::ChaCha;
use cryptoxide::drg::chacha::Drg;

pub const K_BYTES: u8 = 0; // len = N from the menu
pub const K_FILL_BYTES: u8 = 1; // len = N, seed = previous contents
pub const K_FILL_SLICE: u8 = 2; // len arbitrary, seed = previous contents
pub const K_U32: u8 = 3;
pub const K_U64: u8 = 4;
const KINDS: &[&str] = &["bytes", "fill_bytes", "fill_slice", "u32", "u64"];
pub const MENU: [usize; 13] = [1, 3, 4, 7, 8, 16, 25, 32, 63, 64, 65, 100, 255];

pub struct DrgScn;

trait DrgObj {
    fn bytes(&mut self, n: usize) -> Vec<u8>;
    fn fill_bytes(&mut self, n: usize, prev: &[u8]) -> Vec<u8>;
    fn fill_slice(&mut self, out: &mut [u8]);
    fn u32(&mut self) -> u32;
    fn u64(&mut self) -> u64;
}

struct W<const R: usize>(Drg<R>);

impl<const R: usize> DrgObj for W<R> {
    fn bytes(&mut self, n: usize) -> Vec<u8> {
        macro_rules! go {
            ($($n:literal),*) => { match n { $($n => self.0.bytes::<$n>().to_vec(),)* _ => unreachable!() } };
        }
        go!(1, 3, 4, 7, 8, 16, 25, 32, 63, 64, 65, 100, 255)
    }
    fn fill_bytes(&mut self, n: usize, prev: &[u8]) -> Vec<u8> {
        macro_rules! go {
            ($($n:literal),*) => { match n { $($n => { let mut a = [0u8; $n]; a.copy_from_slice(prev); self.0.fill_bytes::<$n>(&mut a); a.to_vec() })* _ => unreachable!() } };
        }
        go!(1, 3, 4, 7, 8, 16, 25, 32, 63, 64, 65, 100, 255)
    }
    fn fill_slice(&mut self, out: &mut [u8]) {
        self.0.fill_slice(out)
    }
    fn u32(&mut self) -> u32 {
        self.0.u32()
    }
    fn u64(&mut self) -> u64 {
        self.0.u64()
    }
}

fn make(rounds: usize, seed: &[u8; 32]) -> Box<dyn DrgObj> {
    match rounds {
        8 => Box::new(W::<8>(Drg::<8>::new(seed))),
        12 => Box::new(W::<12>(Drg::<12>::new(seed))),
        _ => Box::new(W::<20>(Drg::<20>::new(seed))),
    }
}

fn one_call_stream(rounds: usize, seed: &[u8; 32], n: usize) -> Vec<u8> {
    let zeros = vec![0u8; n];
    let mut out = vec![0u8; n];
    match rounds {
        8 => ChaCha::<8>::new(seed, &[0; 12]).process(&zeros, &mut out),
        12 => ChaCha::<12>::new(seed, &[0; 12]).process(&zeros, &mut out),
        _ => ChaCha::<20>::new(seed, &[0; 12]).process(&zeros, &mut out),
    }
    out
}

fn norm_menu(n: usize) -> usize {
    // nearest menu value not larger than n (shrinking may produce any length)
    let mut best = MENU[0];
    for m in MENU {
        if m <= n.max(1) {
            best = m;
        }
    }
    best
}

impl Scenario for DrgScn {
    fn name(&self) -> &'static str {
        "drg"
    }
    fn kinds(&self) -> &'static [&'static str] {
        KINDS
    }
    fn nontrivial_kind(&self, k: u8) -> bool {
        k != K_BYTES
    }
    fn real_vs_stub(&self) -> &'static str {
        "real: drg::chacha::Drg<8|12|20> (new, bytes<N>, fill_bytes<N>, fill_slice, u32, u64) ; stub: scheduler/PRNG, previous buffer contents, the independent ChaCha block-function model that defines the expected stream (harness side)"
    }
    fn cover_rule(&self) -> &'static str {
        "(rounds, op kind, offset-in-block class before the request {0,1,63,other}, request crosses a block boundary?)"
    }
    fn generate(&self, rng: &mut Rng, _idx: u64, tier: Tier) -> Trace {
        let mut t = Trace::new("drg", "drg");
        t.set_p("rounds", *rng.pick(&[8u64, 12, 20]));
        t.set_p("seed_seed", match rng.below(10) { 0 => 0, 1 => 1, _ => rng.data_seed() });
        let nops = if rng.chance(1, 300) { rng.range(300, 700) } else { rng.range(2, if tier == Tier::Thorough { 40 } else { 20 }) };
        let mut w = [6u32, 6, 6, 3, 3];
        for x in w.iter_mut() {
            if rng.chance(1, 4) {
                *x = 0;
            }
        }
        if w.iter().all(|x| *x == 0) {
            w[K_FILL_SLICE as usize] = 1;
        }
        let clean_only = rng.chance(1, 5); // fault-free configuration: destinations are zeroed
        for _ in 0..nops {
            let k = rng.weighted(&w) as u8;
            let prev = if clean_only { 0 } else { match rng.below(5) { 0 => 0, 1 => 1, _ => rng.data_seed() } };
            match k {
                K_BYTES | K_FILL_BYTES => t.ops.push(Op::new(0, k).len(*rng.pick(&MENU)).seed(prev)),
                K_FILL_SLICE => {
                    let len = if rng.chance(1, 300) { crate::scn::hashctx::big_len(rng, false) } else { match rng.below(8) { 0 => 0, 1 => 64, 2 => 65, 3 => 128, _ => rng.below(300) as usize } };
                    t.ops.push(Op::new(0, k).len(len).seed(prev));
                }
                _ => t.ops.push(Op::new(0, k)),
            }
        }
        t
    }

    fn execute(&self, t: &Trace, obs: &mut Obs) -> Result<(), Violation> {
        let rounds = match t.p("rounds") { 8 => 8, 12 => 12, _ => 20 };
        let mut seed = [0u8; 32];
        seed.copy_from_slice(&data(t.p("seed_seed"), 32));
        let need: usize = t.ops.iter().map(|o| match o.k { K_U32 => 4, K_U64 => 8, K_FILL_SLICE => (o.len as usize).min(300_000), _ => norm_menu(o.len as usize) }).sum();
        // reference: the ChaCha keystream of the specification (independent block-function model; IETF layout, all-zero
        // nonce, from block 0). The library's own one-call ChaCha stream is computed as well, only to say in a
        // violation report whether the cipher or the generator deviates.
        let stream = crate::model::chacha::keystream(crate::model::chacha::Family::ChaChaIetf, &seed, &[0u8; 12], 0, 0, need + 64, rounds);
        let lib_stream = guarded(|| one_call_stream(rounds, &seed, need + 64)).map_err(|m| Violation::new("unexpected-panic", 0, "one-call reference", m, "ChaCha::process"))?;
        let blame = if lib_stream == stream { "" } else { " (the library's one-call ChaCha stream itself deviates from the specified keystream)" };
        let mut real = guarded(|| make(rounds, &seed)).map_err(|m| Violation::new("unexpected-panic", 0, "Drg::new", m, "drg"))?;
        let mut pos = 0usize;
        for (i, op) in t.ops.iter().enumerate() {
            obs.begin_op(i);
            let offc = match pos % 64 { 0 => 0, 1 => 1, 63 => 2, _ => 3 };
            let (got, n): (Vec<u8>, usize) = match op.k {
                K_BYTES => {
                    let n = norm_menu(op.len as usize);
                    (guarded(|| real.bytes(n)).map_err(|m| Violation::new("unexpected-panic", i, "bytes", m, "drg"))?, n)
                }
                K_FILL_BYTES => {
                    let n = norm_menu(op.len as usize);
                    let prev = data(op.seed, n);
                    if prev.iter().any(|b| *b != 0) {
                        obs.hit("fault.dirty_destination");
                    }
                    (guarded(|| real.fill_bytes(n, &prev)).map_err(|m| Violation::new("unexpected-panic", i, "fill_bytes", m, "drg"))?, n)
                }
                K_FILL_SLICE => {
                    let n = (op.len as usize).min(300_000);
                    // dirty destination at a misalignment of its own (0..31 bytes off a 32-byte boundary)
                    let mut buf = crate::rng::Aligned::dirty(op.seed, n);
                    if buf.get().iter().any(|b| *b != 0) {
                        obs.hit("fault.dirty_destination");
                    }
                    guarded(|| real.fill_slice(buf.get_mut())).map_err(|m| Violation::new("unexpected-panic", i, "fill_slice", m, "drg"))?;
                    (buf.to_vec(), n)
                }
                K_U32 => {
                    let v = guarded(|| real.u32()).map_err(|m| Violation::new("unexpected-panic", i, "u32", m, "drg"))?;
                    let want = &stream[pos..pos + 4];
                    obs.out(&v.to_le_bytes());
                    // byte order is not part of the property: either reading of the next 4 bytes
                    if v.to_be_bytes() != want && v.to_le_bytes() != want {
                        return Err(Violation::bytes("stream-mismatch", i, want, &v.to_be_bytes(), format!("drg R={}: u32 is not a reading of the next 4 keystream bytes at position {}{}", rounds, pos, blame)));
                    }
                    pos += 4;
                    obs.cov(((rounds as u32) << 8) | ((op.k as u32) << 4) | (offc << 1) | ((pos % 64 < 4) as u32));
                    continue;
                }
                K_U64 => {
                    let v = guarded(|| real.u64()).map_err(|m| Violation::new("unexpected-panic", i, "u64", m, "drg"))?;
                    let want = &stream[pos..pos + 8];
                    obs.out(&v.to_le_bytes());
                    if v.to_be_bytes() != want && v.to_le_bytes() != want {
                        return Err(Violation::bytes("stream-mismatch", i, want, &v.to_be_bytes(), format!("drg R={}: u64 is not a reading of the next 8 keystream bytes at position {}{}", rounds, pos, blame)));
                    }
                    pos += 8;
                    obs.cov(((rounds as u32) << 8) | ((op.k as u32) << 4) | (offc << 1) | ((pos % 64 < 8) as u32));
                    continue;
                }
                _ => continue,
            };
            obs.out(&got);
            let want = &stream[pos..pos + n];
            obs.cov(((rounds as u32) << 8) | ((op.k as u32) << 4) | (offc << 1) | (((pos % 64) + n > 64) as u32));
            if got != want {
                // exact symptom of "keystream XORed into the old contents", for the known-finding predicate
                let prev = if op.k == K_BYTES { vec![0u8; n] } else { data(op.seed, n) };
                let xored = got.iter().zip(want.iter()).zip(prev.iter()).all(|((g, w), p)| *g == *w ^ *p);
                let sym = if xored && op.k != K_BYTES { " symptom=xor-of-previous-contents" } else { "" };
                return Err(Violation::bytes("stream-mismatch", i, want, &got, format!("drg R={}: {} of {} bytes at stream position {} are not the next keystream bytes{}{}", rounds, KINDS[op.k as usize], n, pos, blame, sym)));
            }
            pos += n;
            obs.pos(pos as u64);
        }
        Ok(())
    }

    fn classify(&self, t: &Trace, v: &Violation) -> Option<&'static str> {
        let _ = t;
        if v.kind == "stream-mismatch" && v.detail.ends_with("symptom=xor-of-previous-contents") {
            return Some("drg.fill_xors_into_previous_contents");
        }
        None
    }
}
