//! C20 (cross-profile workload only): seeded calls over the public constant-time helper API.
//!
//! The helpers are pure predicates; whether they return the ordinary answer is property C18, which this
//! technique does not decide, and NO such oracle is applied here. What C20 states about them - like about every
//! other public operation - is that a call inside the documented domain returns normally and returns the same
//! thing in every build profile. So this scenario only executes seeded straight-line calls with structured operands
//! (equal, differing in one position, one apart with a borrow/carry chain through equal bytes, all-zero, all-ones,
//! random) and records the results; the driver diffs the transcripts of the three profiles, and a panic anywhere is a
//! violation. The one call shape the API defines as invalid (slice comparison with different lengths) must fail loudly.

use crate::guard::guarded;
use crate::rng::{data, Rng};
use crate::trace::{Obs, Op, Scenario, Tier, Trace, Violation};
use cryptoxide::constant_time::{Choice, CtEqual, CtGreater, CtLesser, CtOption, CtZero};

pub const P_U64: u8 = 0;
pub const P_U8: u8 = 1;
pub const P_ARR8: u8 = 2; // &[u8; N] zero / eq / lt / ge, N in {1, 4, 16, 32, 33}
pub const P_ARR64: u8 = 3; // &[u64; N] and &[u64]
pub const P_SLICE8: u8 = 4; // &[u8] eq / ne
pub const P_CHOICE: u8 = 5; // and / or / xor / negate, CtOption
pub const P_SLICE_LEN_MISMATCH: u8 = 6; // misuse: must fail loudly
const KINDS: &[&str] = &["u64", "u8", "byte_array", "u64_array", "byte_slice", "choice_algebra", "slice_length_mismatch"];

pub struct CtProbe;

/// pair of byte strings of length n with a structured relation chosen by `class`
pub fn pair(class: u64, seed: u64, n: usize) -> (Vec<u8>, Vec<u8>) {
    let a = data(seed | 16, n);
    let mut b = a.clone();
    if n == 0 {
        return (a, b);
    }
    let pos = (seed >> 8) as usize % n;
    match class % 10 {
        0 => {}                                           // equal
        1 => b[pos] ^= 1 << ((seed >> 3) % 8),            // one bit apart
        2 => b[n - 1] = b[n - 1].wrapping_add(1),         // last (least significant, big-endian) byte one apart
        3 => b[0] = b[0].wrapping_add(1),                 // first (most significant) byte one apart
        4 => {
            // b = a + 1 as big-endian numbers, with a carry chain through trailing 0xff bytes
            let mut a2 = a.clone();
            let k = 1 + (seed >> 5) as usize % n;
            for x in a2[n - k..].iter_mut() {
                *x = 0xff;
            }
            let mut b2 = a2.clone();
            let mut i = n;
            loop {
                if i == 0 {
                    break;
                }
                i -= 1;
                let (v, c) = b2[i].overflowing_add(1);
                b2[i] = v;
                if !c {
                    break;
                }
            }
            return (a2, b2);
        }
        5 => {
            // equal prefix bytes and a borrow arriving from below: a = x..x 00, b = x..x 01 style
            let mut a2 = a.clone();
            let mut b2 = a.clone();
            a2[n - 1] = 0;
            b2[n - 1] = 1;
            return (a2, b2);
        }
        6 => return (vec![0u8; n], b),                    // zero vs random
        7 => return (vec![0xffu8; n], vec![0xffu8; n]),   // all ones, equal
        8 => return (vec![0u8; n], vec![0u8; n]),         // all zero, equal
        _ => b = data((seed ^ 0x5555) | 16, n),           // unrelated
    }
    (a, b)
}

fn c2u(c: Choice) -> u8 {
    // observe through every accessor (recorded, not judged)
    let t = c.is_true();
    let f = c.is_false();
    let b: bool = c.into();
    (t as u8) | ((f as u8) << 1) | ((b as u8) << 2)
}

macro_rules! arr8 {
    ($n:literal, $a:expr, $b:expr, $out:expr) => {{
        let mut x = [0u8; $n];
        let mut y = [0u8; $n];
        x.copy_from_slice(&$a[..$n]);
        y.copy_from_slice(&$b[..$n]);
        $out.push(c2u((&x).ct_zero()));
        $out.push(c2u((&x).ct_nonzero()));
        $out.push(c2u((&x).ct_eq(&y)));
        $out.push(c2u((&x).ct_ne(&y)));
        $out.push(c2u(<&[u8; $n]>::ct_lt(&x, &y)));
        $out.push(c2u(<&[u8; $n]>::ct_lt(&y, &x)));
        $out.push(c2u(<&[u8; $n]>::ct_ge(&x, &y)));
        $out.push(c2u(<&[u8; $n]>::ct_ge(&y, &x)));
    }};
}

macro_rules! arr64 {
    ($n:literal, $a:expr, $b:expr, $out:expr) => {{
        let mut x = [0u64; $n];
        let mut y = [0u64; $n];
        for i in 0..$n {
            let mut w = [0u8; 8];
            w.copy_from_slice(&$a[8 * i..8 * i + 8]);
            x[i] = u64::from_le_bytes(w);
            w.copy_from_slice(&$b[8 * i..8 * i + 8]);
            y[i] = u64::from_le_bytes(w);
        }
        $out.push(c2u((&x).ct_zero()));
        $out.push(c2u((&x).ct_nonzero()));
        $out.push(c2u((&x).ct_eq(&y)));
        $out.push(c2u((&x).ct_ne(&y)));
        $out.push(c2u((&x[..]).ct_zero()));
        $out.push(c2u((&x[..]).ct_nonzero()));
        $out.push(c2u((&x[..]).ct_eq(&y[..])));
        $out.push(c2u((&x[..]).ct_ne(&y[..])));
    }};
}

impl Scenario for CtProbe {
    fn name(&self) -> &'static str {
        "ctprobe"
    }
    fn kinds(&self) -> &'static [&'static str] {
        KINDS
    }
    fn nontrivial_kind(&self, _k: u8) -> bool {
        true
    }
    fn real_vs_stub(&self) -> &'static str {
        "real: cryptoxide::constant_time (Choice, CtOption, CtZero, CtEqual, CtLesser, CtGreater for u8, u64, byte arrays, u64 arrays and slices); stub: scheduler/PRNG and operand construction (harness side). No value oracle: outputs are only compared across build profiles"
    }
    fn cover_rule(&self) -> &'static str {
        "(call family, operand relation class)"
    }
    fn generate(&self, rng: &mut Rng, _idx: u64, tier: Tier) -> Trace {
        let mut t = Trace::new("ctprobe", "constant_time");
        let nops = rng.range(2, if tier == Tier::Thorough { 40 } else { 16 });
        for _ in 0..nops {
            let k = match rng.below(20) {
                0..=3 => P_U64,
                4..=5 => P_U8,
                6..=11 => P_ARR8,
                12..=14 => P_ARR64,
                15..=16 => P_SLICE8,
                17..=18 => P_CHOICE,
                _ => P_SLICE_LEN_MISMATCH,
            };
            t.ops.push(Op::new(0, k).arg(rng.below(10)).len(rng.below(5) as usize).seed(rng.data_seed()));
        }
        t
    }

    fn execute(&self, t: &Trace, obs: &mut Obs) -> Result<(), Violation> {
        for (i, op) in t.ops.iter().enumerate() {
            obs.begin_op(i);
            obs.cov(((op.k as u32) << 8) | (op.arg % 10) as u32);
            let what = KINDS.get(op.k as usize).copied().unwrap_or("?");
            let r: Result<Vec<u8>, String> = match op.k {
                P_U64 => {
                    let (a, b) = pair(op.arg, op.seed, 8);
                    let mut w = [0u8; 8];
                    w.copy_from_slice(&a);
                    let x = u64::from_be_bytes(w);
                    w.copy_from_slice(&b);
                    let y = u64::from_be_bytes(w);
                    guarded(|| {
                        vec![
                            c2u(x.ct_zero()),
                            c2u(x.ct_nonzero()),
                            c2u(x.ct_eq(y)),
                            c2u(x.ct_ne(y)),
                            c2u(u64::ct_lt(x, y)),
                            c2u(u64::ct_lt(y, x)),
                            c2u(u64::ct_gt(x, y)),
                            c2u(u64::ct_le(x, y)),
                            c2u(u64::ct_ge(x, y)),
                        ]
                    })
                }
                P_U8 => {
                    let (a, b) = pair(op.arg, op.seed, 1);
                    let (x, y) = (a[0], b[0]);
                    guarded(|| vec![c2u(x.ct_zero()), c2u(x.ct_nonzero()), c2u(x.ct_eq(y)), c2u(x.ct_ne(y))])
                }
                P_ARR8 => {
                    let (a, b) = pair(op.arg, op.seed, 33);
                    let sel = op.len % 5;
                    guarded(|| {
                        let mut out = Vec::new();
                        match sel {
                            0 => arr8!(1, a, b, out),
                            1 => arr8!(4, a[29..], b[29..], out),
                            2 => arr8!(16, a[17..], b[17..], out),
                            3 => arr8!(32, a[1..], b[1..], out),
                            _ => arr8!(33, a, b, out),
                        }
                        out
                    })
                }
                P_ARR64 => {
                    let (a, b) = pair(op.arg, op.seed, 40);
                    let sel = op.len % 3;
                    guarded(|| {
                        let mut out = Vec::new();
                        match sel {
                            0 => arr64!(1, a, b, out),
                            1 => arr64!(4, a, b, out),
                            _ => arr64!(5, a, b, out),
                        }
                        out
                    })
                }
                P_SLICE8 => {
                    let n = [0usize, 1, 15, 16, 65][(op.len % 5) as usize];
                    let (a, b) = pair(op.arg, op.seed, n);
                    guarded(|| vec![c2u((&a[..]).ct_eq(&b[..])), c2u((&a[..]).ct_ne(&b[..]))])
                }
                P_CHOICE => {
                    let (a, b) = pair(op.arg, op.seed, 1);
                    guarded(|| {
                        let p = a[0].ct_zero();
                        let q = a[0].ct_eq(b[0]);
                        let o1: Option<u8> = CtOption::from((p, 7u8)).into_option();
                        let o2: Option<u8> = CtOption::from((q, 9u8)).into_option();
                        vec![c2u(p & q), c2u(p | q), c2u(p ^ q), c2u(p.negate()), c2u(q.negate().negate()), o1.unwrap_or(0), o2.unwrap_or(0)]
                    })
                }
                P_SLICE_LEN_MISMATCH => {
                    // the only call shape the API defines as invalid: comparing slices of different lengths
                    let a = data(op.seed | 16, 8);
                    let b = data(op.seed | 16, 8 + 1 + (op.len % 3) as usize);
                    obs.hit("fault.misuse_slice_length_mismatch");
                    match guarded(|| c2u((&a[..]).ct_eq(&b[..]))) {
                        Err(_) => {
                            obs.out_flag("refused", true);
                            continue;
                        }
                        Ok(v) => {
                            return Err(Violation::new("missing-refusal", i, "a loud failure (panic)", format!("returned {}", v), "constant_time: ct_eq on byte slices of different lengths returned a value".to_string()));
                        }
                    }
                }
                _ => continue,
            };
            match r {
                Ok(v) => obs.out(&v),
                Err(m) => {
                    return Err(Violation::new("unexpected-panic", i, "the call returns (operands inside the documented domain)", m, format!("constant_time {} operand class {}", what, op.arg % 10)));
                }
            }
        }
        Ok(())
    }
}
