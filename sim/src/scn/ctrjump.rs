//! C03 — keystream equals the specification; counters advance, wrap and carry correctly.
//!
//! The block counter is the stream's clock. Faults are clock jumps: public `seek(n)` for the
//! 32-bit-counter variants and hook H2 for the 64-bit ones, placing the counter next to
//! 2^32-1 / a low-word carry, followed by a fragmented history that runs across the boundary.
//! Oracle: independent block-function model evaluated at the absolute block index, plus the
//! hook getter invariant "counter == ceil(position / 64)".

use crate::guard::guarded;
use crate::model::chacha::{keystream, Family};
use crate::rng::{data, Aligned, Rng};
use crate::scn::streams::*;
use crate::trace::{Obs, Op, Scenario, Tier, Trace, Violation};

pub const K_JUMP: u8 = 0;
pub const K_PROCESS: u8 = 1;
pub const K_PROCESS_MUT: u8 = 2;
const KINDS: &[&str] = &["jump", "process", "process_mut"];

pub struct CtrJump;

pub fn stream_len(rng: &mut Rng) -> usize {
    if rng.chance(1, 400) {
        let very = rng.chance(1, 10);
        return crate::scn::hashctx::big_len(rng, very);
    }
    match rng.below(16) {
        0 => 0,
        1 => 1,
        2 => 63,
        3 => 64,
        4 => 65,
        5 => 127,
        6 => 128,
        7 => 129,
        8 => 192,
        9 => 200,
        10 => rng.range(1, 1024) as usize,
        _ => rng.below(300) as usize,
    }
}

pub fn jump_target(rng: &mut Rng, f: Family) -> u64 {
    // every carry position of the counter, not only the word boundary: 2^k - d (vector lanes, half-words, bytes)
    if rng.chance(1, 6) {
        let k = rng.range(1, f.counter_bits() as u64 - 1);
        return (1u64 << k).wrapping_sub(rng.below(3));
    }
    if f.counter_bits() == 32 {
        match rng.below(8) {
            0 => 0,
            1 => 1,
            2 | 3 => 0xffff_fffe,
            4 | 5 => 0xffff_ffff,
            6 => 0xffff_fffd,
            _ => rng.next_u64() & 0xffff_ffff,
        }
    } else {
        // the last blocks of the stream: legal positions; the histories that follow are clamped so that they stop at
        // the end of the stream (block 2^64 - 1, byte 63) and never wrap
        if rng.chance(1, 12) {
            return u64::MAX - rng.below(3);
        }
        let lo: u64 = match rng.below(8) {
            0 => 0,
            1 | 2 => 0xffff_fffe,
            3 | 4 => 0xffff_ffff,
            5 => 0xffff_fffd,
            _ => rng.next_u64() & 0xffff_ffff,
        };
        let hi: u64 = match rng.below(6) {
            0 | 1 => 0,
            2 => 1,
            3 => 0xffff_fffe,
            4 => 0xffff_ffff,
            _ => rng.next_u64() & 0xffff_ffff,
        };
        // never cross 2^64 blocks: that is outside any specified domain
        if hi == 0xffff_ffff {
            (hi << 32) | (lo & 0x7fff_ffff)
        } else {
            (hi << 32) | lo
        }
    }
}

pub struct StreamParams {
    pub v: StreamVariant,
    pub rounds: usize,
    pub key: Vec<u8>,
    pub nonce: Vec<u8>,
}

pub fn stream_params(t: &Trace) -> Option<StreamParams> {
    let v = stream_variant(&t.variant)?;
    let rounds = match t.p("rounds") {
        8 => 8,
        12 => 12,
        _ => 20,
    };
    let mut kl = if t.p("key_len") == 16 { 16 } else { 32 };
    if matches!(v.family, Family::XChaCha | Family::XSalsa) {
        kl = 32;
    }
    let key = data(t.p("key_seed"), kl);
    let nonce = data(t.p("nonce_seed"), v.family.nonce_len());
    Some(StreamParams { v, rounds, key, nonce })
}

pub fn gen_stream_params(rng: &mut Rng, t: &mut Trace, v: &StreamVariant) {
    t.set_p("rounds", *rng.pick(&ROUNDS) as u64);
    let kl = if matches!(v.family, Family::XChaCha | Family::XSalsa) || rng.chance(1, 2) { 32 } else { 16 };
    t.set_p("key_len", kl);
    // key / nonce classes: mostly random, sometimes all-zero / all-ones
    t.set_p("key_seed", match rng.below(10) { 0 => 0, 1 => 1, _ => rng.data_seed() });
    t.set_p("nonce_seed", match rng.below(10) { 0 => 0, 1 => 1, _ => rng.data_seed() });
}

impl Scenario for CtrJump {
    fn name(&self) -> &'static str {
        "ctrjump"
    }
    fn kinds(&self) -> &'static [&'static str] {
        KINDS
    }
    fn nontrivial_kind(&self, k: u8) -> bool {
        k == K_JUMP
    }
    fn real_vs_stub(&self) -> &'static str {
        "real: ChaCha/XChaCha/ChaChaOriginal/Salsa/XSalsa contexts (new, process, process_mut, seek), the SSE2 and portable ChaCha engines through hook H3 (init, rounds, add_back, set_counter, increment, increment64, output_bytes, output_ad_bytes); stub: scheduler/PRNG, RFC 8439 / Bernstein block-function model, the 64-byte buffering loop for the engine variants (harness copy)"
    }
    fn cover_rule(&self) -> &'static str {
        "(variant, rounds, key length, op kind, offset-in-block class before the op {0,1,63,other}, boundary crossed {none, block, 2^32 word})"
    }
    fn generate(&self, rng: &mut Rng, _idx: u64, tier: Tier) -> Trace {
        let v = *rng.pick(STREAM_VARIANTS);
        let mut t = Trace::new("ctrjump", v.name);
        gen_stream_params(rng, &mut t, &v);
        let nops = if rng.chance(1, 300) { rng.range(300, 700) } else { rng.range(2, if tier == Tier::Thorough { 20 } else { 12 }) };
        let jump_first = rng.chance(3, 4);
        if jump_first {
            t.ops.push(Op::new(0, K_JUMP).arg(jump_target(rng, v.family)));
        }
        for _ in 0..nops {
            if rng.chance(1, 10) {
                t.ops.push(Op::new(0, K_JUMP).arg(jump_target(rng, v.family)));
            } else {
                let k = if rng.chance(1, 2) { K_PROCESS } else { K_PROCESS_MUT };
                let seed = match rng.below(4) { 0 => 0, _ => rng.data_seed() };
                t.ops.push(Op::new(0, k).len(stream_len(rng)).seed(seed).off(rng.below(32) as u8));
            }
        }
        t
    }

    fn execute(&self, t: &Trace, obs: &mut Obs) -> Result<(), Violation> {
        let sp = match stream_params(t) {
            Some(x) => x,
            None => return Ok(()),
        };
        let f = sp.v.family;
        if !crate::scn::streams::available(&sp.v) {
            obs.hit("skipped.hooks_unavailable");
            return Ok(());
        }
        let mask: u64 = if f.counter_bits() == 32 { 0xffff_ffff } else { u64::MAX };
        let mut real = guarded(|| make_stream(&sp.v, sp.rounds, &sp.key, &sp.nonce)).map_err(|m| Violation::new("unexpected-panic", 0, "context constructed", m, sp.v.name))?;
        let mut blk: u64 = 0;
        let mut off: usize = 0;
        let mut exhausted = false; // 64-bit counters: all 2^64 blocks consumed; nothing further is specified until a jump
        let vi = STREAM_VARIANTS.iter().position(|x| x.name == sp.v.name).unwrap() as u32;
        for (i, op) in t.ops.iter().enumerate() {
            obs.begin_op(i);
            match op.k {
                K_JUMP => {
                    if !has_seek(&sp.v) && !crate::scn::streams::HOOKS {
                        obs.hit("skipped.hooks_unavailable");
                        continue; // no public way to move this stream: the history goes on from where it stands
                    }
                    let target = op.arg & mask;
                    obs.hit("fault.clock_jump");
                    if off != 0 {
                        obs.hit("probe.jump_from_mid_block");
                    }
                    let r = if has_seek(&sp.v) { guarded(|| real.seek(target as u32)) } else { guarded(|| real.set_counter64(target)) };
                    r.map_err(|m| Violation::new("unexpected-panic", i, "jump accepted", m, sp.v.name))?;
                    blk = target;
                    off = 0;
                    exhausted = false;
                }
                K_PROCESS | K_PROCESS_MUT => {
                    if exhausted {
                        continue;
                    }
                    let mut len = (op.len as usize).min(2 * 1024 * 1024);
                    if f.counter_bits() == 64 && blk >= u64::MAX - 128 {
                        let remaining = (u64::MAX - blk) as usize * 64 + (64 - off);
                        if len >= remaining {
                            len = remaining;
                            obs.hit("probe.last_block_of_the_stream_consumed");
                        }
                    }
                    let input = Aligned::new(op.seed, len, (op.off % 32) as usize);
                    let ks = keystream(f, &sp.key, &sp.nonce, blk, off, len, sp.rounds);
                    let want: Vec<u8> = input.get().iter().zip(ks.iter()).map(|(a, b)| a ^ b).collect();
                    let got: Vec<u8> = if op.k == K_PROCESS {
                        let mut out = Aligned::dirty(op.seed ^ 0x5151, len); // dirty destination at its own misalignment
                        guarded(|| real.process(input.get(), out.get_mut())).map_err(|m| Violation::new("unexpected-panic", i, "process", m, sp.v.name))?;
                        out.to_vec()
                    } else {
                        let mut buf = Aligned::holding(input.get(), op.seed ^ 0x3131);
                        guarded(|| real.process_mut(buf.get_mut())).map_err(|m| Violation::new("unexpected-panic", i, "process_mut", m, sp.v.name))?;
                        buf.to_vec()
                    };
                    obs.out(&got);
                    let total = off + len;
                    let crossed_blocks = (total / 64) as u64;
                    let before = blk;
                    let crossed_word = len > 0 && (before & 0xffff_ffff) + ((total as u64 - 1) / 64) > 0xffff_ffff;
                    let offc = match off { 0 => 0, 1 => 1, 63 => 2, _ => 3 };
                    obs.cov((vi << 20) | ((sp.rounds as u32) << 12) | ((sp.key.len() as u32 / 16) << 8) | ((op.k as u32) << 6) | (offc << 2) | if crossed_word { 2 } else if crossed_blocks > 0 { 1 } else { 0 });
                    if crossed_word {
                        obs.hit(if f.counter_bits() == 32 { "probe.counter32_wrapped" } else { "probe.counter64_low_word_carried" });
                    }
                    if got != want {
                        let firstbad = got.iter().zip(want.iter()).position(|(a, b)| a != b).unwrap_or(0);
                        return Err(Violation::bytes("stream-mismatch", i, &want, &got, format!("{} R={} key{}: {} bytes at block {:#x}+{} differ from the specified keystream (first at byte {}, i.e. block {:#x})", sp.v.name, sp.rounds, sp.key.len() * 8, len, blk, off, firstbad, (blk.wrapping_add(((off + firstbad) / 64) as u64)) & mask)));
                    }
                    if f.counter_bits() == 64 && crossed_blocks > 0 && before.checked_add(crossed_blocks).is_none() {
                        exhausted = true;
                    }
                    blk = blk.wrapping_add(crossed_blocks) & mask;
                    off = total % 64;
                    obs.pos(blk);
                }
                _ => {}
            }
            // invariant through the hook getter: the counter names the block the stream stands in or the one after
            // it. Which of the two depends on bookkeeping the property does not constrain (refill eagerly or lazily,
            // increment before or after generating a block), so both are accepted at every position; a counter
            // anywhere else is state corruption. The keystream comparison is what the property constrains.
            if exhausted {
                continue;
            }
            let want_ctr = blk.wrapping_add(if off > 0 { 1 } else { 0 }) & mask;
            let got_ctr = match real.counter() {
                Some(c) => c,
                None => continue,
            };
            if got_ctr != (blk & mask) && got_ctr != (blk.wrapping_add(1) & mask) {
                return Err(Violation::new("counter-invariant", i, format!("{:#x}", want_ctr), format!("{:#x}", got_ctr), format!("{}: block counter after op (model position block {:#x} offset {})", sp.v.name, blk, off)));
            }
        }
        // end of run: whatever state the history left must show in the keystream: continue for two more
        // block boundaries (never across 2^64 blocks)
        let n = t.ops.len();
        if !exhausted && (blk < u64::MAX - 4 || f.counter_bits() == 32) {
            let ks = keystream(f, &sp.key, &sp.nonce, blk, off, 130, sp.rounds);
            let mut buf = [0u8; 130];
            guarded(|| real.process_mut(&mut buf)).map_err(|m| Violation::new("unexpected-panic", n, "process_mut", m, sp.v.name))?;
            obs.out(&buf);
            if buf[..] != ks[..] {
                let firstbad = buf.iter().zip(ks.iter()).position(|(a, b)| a != b).unwrap_or(0);
                return Err(Violation::bytes("stream-mismatch", n, &ks, &buf, format!("{} R={} key{}: end-of-run continuation of 130 bytes at block {:#x}+{} differs from the specified keystream (first at byte {})", sp.v.name, sp.rounds, sp.key.len() * 8, blk, off, firstbad)));
            }
        }
        Ok(())
    }

    fn classify(&self, t: &Trace, v: &Violation) -> Option<&'static str> {
        // portable engine ignores a 128-bit key (reference.rs init, 16-byte arm)
        if v.kind == "stream-mismatch" && t.variant.starts_with("portable_") && t.p("key_len") == 16 && !t.variant.contains("xchacha") {
            return Some("chacha.portable_engine.key128_not_loaded");
        }
        None
    }
}
