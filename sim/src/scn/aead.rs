//! C06 `aeadflow` and C07 `aeadtamper` — two parties (sender, receiver) and a channel.
//!
//! aeadflow: fault-free channel; sender and receiver each pick an API path (one-shot or
//! incremental) and an independent fragmentation of AAD and data, in place or buffer to buffer,
//! with forks of the sender context mid-way. Oracles: (ciphertext, tag) == independent RFC 8439
//! model; receiver returns the plaintext and reports success.
//!
//! aeadtamper: the channel injects faults into (key, nonce, aad, ciphertext, tag); the whole
//! catalogue is applied to every sampled honest tuple, each delivery to a fresh receiver through
//! the one-shot AND an incremental path. Oracle: accept <=> the delivered tag is the RFC 8439 tag
//! (independent model) of exactly the delivered inputs; both receivers agree.

use crate::guard::guarded;
use crate::model::aead as maead;
use crate::rng::{data, Aligned, Rng};
use crate::trace::{Obs, Op, Scenario, Tier, Trace, Violation};
use cryptoxide::chacha20poly1305::{ChaChaPoly1305, Context, ContextEncryption, DecryptionResult, Tag};

// ------------------------------------------------------------------ real-code adapters (by ROUNDS)

pub enum SenderObj {
    A8(Context<8>),
    A12(Context<12>),
    A20(Context<20>),
    E8(ContextEncryption<8>),
    E12(ContextEncryption<12>),
    E20(ContextEncryption<20>),
    Gone,
}

impl SenderObj {
    pub fn new(rounds: usize, key: &[u8], nonce: &[u8; 12]) -> SenderObj {
        match rounds {
            8 => SenderObj::A8(Context::<8>::new(key, nonce)),
            12 => SenderObj::A12(Context::<12>::new(key, nonce)),
            _ => SenderObj::A20(Context::<20>::new(key, nonce)),
        }
    }
    pub fn fork(&self) -> SenderObj {
        match self {
            SenderObj::A8(c) => SenderObj::A8(c.clone()),
            SenderObj::A12(c) => SenderObj::A12(c.clone()),
            SenderObj::A20(c) => SenderObj::A20(c.clone()),
            SenderObj::E8(c) => SenderObj::E8(c.clone()),
            SenderObj::E12(c) => SenderObj::E12(c.clone()),
            SenderObj::E20(c) => SenderObj::E20(c.clone()),
            SenderObj::Gone => SenderObj::Gone,
        }
    }
    pub fn in_aad_phase(&self) -> bool {
        matches!(self, SenderObj::A8(_) | SenderObj::A12(_) | SenderObj::A20(_))
    }
    pub fn add_data(&mut self, d: &[u8]) {
        match self {
            SenderObj::A8(c) => c.add_data(d),
            SenderObj::A12(c) => c.add_data(d),
            SenderObj::A20(c) => c.add_data(d),
            _ => {}
        }
    }
    pub fn to_encryption(&mut self) {
        let old = core::mem::replace(self, SenderObj::Gone);
        *self = match old {
            SenderObj::A8(c) => SenderObj::E8(c.to_encryption()),
            SenderObj::A12(c) => SenderObj::E12(c.to_encryption()),
            SenderObj::A20(c) => SenderObj::E20(c.to_encryption()),
            other => other,
        };
    }
    /// inplace = encrypt_mut, else encrypt into a dirty destination
    pub fn encrypt(&mut self, input: &[u8], inplace: bool) -> Vec<u8> {
        // destination (or in-place buffer) at a misalignment of its own, pre-filled with garbage
        let mut outb = if inplace { Aligned::holding(input, 0x1a11 ^ input.len() as u64) } else { Aligned::dirty(0xd1147 ^ input.len() as u64, input.len()) };
        let out = outb.get_mut();
        match self {
            SenderObj::E8(c) => {
                if inplace {
                    c.encrypt_mut(out)
                } else {
                    c.encrypt(input, out)
                }
            }
            SenderObj::E12(c) => {
                if inplace {
                    c.encrypt_mut(out)
                } else {
                    c.encrypt(input, out)
                }
            }
            SenderObj::E20(c) => {
                if inplace {
                    c.encrypt_mut(out)
                } else {
                    c.encrypt(input, out)
                }
            }
            _ => {}
        }
        outb.to_vec()
    }
    pub fn finalize(self) -> [u8; 16] {
        match self {
            SenderObj::E8(c) => c.finalize().0,
            SenderObj::E12(c) => c.finalize().0,
            SenderObj::E20(c) => c.finalize().0,
            _ => [0; 16],
        }
    }
}

pub fn oneshot_encrypt(rounds: usize, key: &[u8], nonce: &[u8; 12], aad: &[u8], pt: &[u8]) -> (Vec<u8>, [u8; 16]) {
    let mut outb = Aligned::dirty(0x0e5407 ^ pt.len() as u64, pt.len());
    let out = outb.get_mut();
    let mut tag = [0xeeu8; 16];
    match rounds {
        8 => ChaChaPoly1305::<8>::new(key, nonce, aad).encrypt(pt, out, &mut tag),
        12 => ChaChaPoly1305::<12>::new(key, nonce, aad).encrypt(pt, out, &mut tag),
        _ => ChaChaPoly1305::<20>::new(key, nonce, aad).encrypt(pt, out, &mut tag),
    }
    (outb.to_vec(), tag)
}

pub fn oneshot_decrypt(rounds: usize, key: &[u8], nonce: &[u8; 12], aad: &[u8], ct: &[u8], tag: &[u8]) -> (Vec<u8>, bool) {
    let mut outb = Aligned::dirty(0xdec ^ ct.len() as u64, ct.len());
    let out = outb.get_mut();
    let ok = match rounds {
        8 => ChaChaPoly1305::<8>::new(key, nonce, aad).decrypt(ct, out, tag),
        12 => ChaChaPoly1305::<12>::new(key, nonce, aad).decrypt(ct, out, tag),
        _ => ChaChaPoly1305::<20>::new(key, nonce, aad).decrypt(ct, out, tag),
    };
    (outb.to_vec(), ok)
}

/// what an incremental receiver that had one of its calls refused did afterwards
#[derive(Clone, Copy, PartialEq, Eq, Debug)]
pub enum AfterRefusal {
    /// no refused call was injected in this delivery
    NotInjected,
    /// a call with a mismatched output length was made before a piece and refused loudly; the delivery then completed
    Completed,
    /// ... and a later call failed loudly too (the object considers itself poisoned): acceptable, nothing to compare
    LoudAgain,
    /// the mismatched call was ACCEPTED (that is C20's business, not judged here; the delivery is not compared)
    Accepted,
}

/// incremental receiver with its own fragmentation drawn from `frag_seed`
pub fn incremental_decrypt(rounds: usize, key: &[u8], nonce: &[u8; 12], aad: &[u8], ct: &[u8], tag: &[u8; 16], frag_seed: u64) -> (Vec<u8>, bool) {
    let (out, ok, _) = incremental_decrypt_faulty(rounds, key, nonce, aad, ct, tag, frag_seed, false);
    (out, ok)
}

/// the same receiver; with `inject` about one delivery in four first makes a call the API refuses (buffer-to-buffer
/// decrypt with an output buffer of another length) right before one of its pieces, then goes on with the same object
pub fn incremental_decrypt_faulty(rounds: usize, key: &[u8], nonce: &[u8; 12], aad: &[u8], ct: &[u8], tag: &[u8; 16], frag_seed: u64, inject: bool) -> (Vec<u8>, bool, AfterRefusal) {
    let mut rng = Rng::new(frag_seed);
    let mut inject_left = if inject && Rng::new(frag_seed ^ 0x1e7).chance(1, 4) { 1 } else { 0 };
    let mut state = AfterRefusal::NotInjected;
    macro_rules! go {
        ($r:literal) => {{
            let mut c = Context::<$r>::new(key, nonce);
            let mut i = 0;
            while i < aad.len() {
                let n = frag(&mut rng, aad.len() - i);
                c.add_data(&aad[i..i + n]);
                i += n;
            }
            if rng.chance(1, 4) {
                c.add_data(&[]);
            }
            let mut d = c.to_decryption();
            let mut out = Vec::with_capacity(ct.len());
            let mut i = 0;
            while i < ct.len() {
                let n = frag(&mut rng, ct.len() - i);
                if inject_left > 0 && n > 0 && Rng::new(frag_seed ^ i as u64).chance(1, 2) {
                    inject_left = 0;
                    // the refused call: same input, output buffer one byte longer or shorter
                    let mut wrong = data(0xbad ^ n as u64, if frag_seed & 1 == 0 { n + 1 } else { n - 1 });
                    match crate::guard::guarded(|| d.decrypt(&ct[i..i + n], &mut wrong)) {
                        Err(_) => state = AfterRefusal::Completed,
                        Ok(()) => return (Vec::new(), false, AfterRefusal::Accepted),
                    }
                }
                let piece: Result<Vec<u8>, String> = if rng.chance(1, 2) {
                    let mut b = Aligned::holding(&ct[i..i + n], 0xf00d ^ n as u64 ^ frag_seed);
                    crate::guard::guarded(|| d.decrypt_mut(b.get_mut())).map(|_| b.to_vec())
                } else {
                    let mut b = Aligned::dirty(0xfeed ^ n as u64 ^ frag_seed, n);
                    crate::guard::guarded(|| d.decrypt(&ct[i..i + n], b.get_mut())).map(|_| b.to_vec())
                };
                match piece {
                    Ok(b) => out.extend_from_slice(&b),
                    Err(_) if state == AfterRefusal::Completed => return (Vec::new(), false, AfterRefusal::LoudAgain),
                    Err(m) => panic!("{}", m),
                }
                i += n;
            }
            let fin = crate::guard::guarded(move || d.finalize(&Tag(*tag)) == DecryptionResult::Match);
            match fin {
                Ok(ok) => (out, ok, state),
                Err(_) if state == AfterRefusal::Completed => (Vec::new(), false, AfterRefusal::LoudAgain),
                Err(m) => panic!("{}", m),
            }
        }};
    }
    match rounds {
        8 => go!(8),
        12 => go!(12),
        _ => go!(20),
    }
}

fn frag(rng: &mut Rng, remaining: usize) -> usize {
    // now and then one large piece (thresholds that block-wise or strided implementations pick: 4 KiB, 16 KiB) or
    // everything that is left in one call
    if remaining > 300 {
        match rng.below(24) {
            0 => return remaining,
            1 => return (rng.range(4000, 20000) as usize).min(remaining),
            2 => return [4096usize, 4097, 16384, 16385][rng.below(4) as usize].min(remaining),
            _ => {}
        }
    }
    let n = match rng.below(10) {
        0 => 0,
        1 => 1,
        2 => 15,
        3 => 16,
        4 => 17,
        5 => 63,
        6 => 64,
        7 => 65,
        _ => rng.below(200) as usize,
    };
    n.min(remaining).max(if remaining > 0 && rng.chance(9, 10) { 1 } else { 0 }).min(remaining)
}

/// lengths around the sizes at which buffered / strided implementations switch paths
pub fn aead_len_huge(rng: &mut Rng) -> usize {
    const MENU: [usize; 14] = [4095, 4096, 4097, 8191, 8192, 8193, 16383, 16384, 16385, 20000, 32768, 65536, 65537, 70000];
    *rng.pick(&MENU)
}

pub fn aead_len(rng: &mut Rng, big: bool) -> usize {
    match rng.below(14) {
        0 | 1 => 0,
        2 => 1,
        3 => 15,
        4 => 16,
        5 => 17,
        6 => 63,
        7 => 64,
        8 => 65,
        9 => 32,
        10 => {
            if big {
                rng.range(100, 4096) as usize
            } else {
                rng.below(300) as usize
            }
        }
        _ => rng.below(130) as usize,
    }
}

fn rounds_of(t: &Trace) -> usize {
    match t.p("rounds") {
        8 => 8,
        12 => 12,
        _ => 20,
    }
}

fn key_nonce(t: &Trace) -> (Vec<u8>, [u8; 12]) {
    let kl = if t.p("key_len") == 16 { 16 } else { 32 };
    let key = data(t.p("key_seed"), kl);
    let mut nonce = [0u8; 12];
    nonce.copy_from_slice(&data(t.p("nonce_seed"), 12));
    (key, nonce)
}

fn gen_common(rng: &mut Rng, t: &mut Trace) {
    t.set_p("rounds", *rng.pick(&[8u64, 12, 20, 20]));
    t.set_p("key_len", if rng.chance(1, 3) { 16 } else { 32 });
    t.set_p("key_seed", match rng.below(10) { 0 => 0, 1 => 1, _ => rng.data_seed() });
    t.set_p("nonce_seed", match rng.below(10) { 0 => 0, 1 => 1, _ => rng.data_seed() });
}

// ------------------------------------------------------------------ C06 aeadflow

pub const F_AAD: u8 = 0;
pub const F_DATA: u8 = 1; // off&1: in place
pub const F_FORK: u8 = 2;
// last data piece of a handle, computed by the model so that the tag of the whole message takes a special value
// (arg = class, see model::aead::forced_goal): plaintext = keystream XOR (padding || free block || solved block)
pub const F_FORCE_TAG: u8 = 3;
const F_KINDS: &[&str] = &["add_data", "encrypt", "fork", "encrypt_piece_forcing_a_special_tag"];

/// plaintext piece that makes the honest tag special; None if the model found no solution
pub fn forcing_piece(key: &[u8], nonce: &[u8; 12], aad: &[u8], ct_so_far: &[u8], sel: u64, seed: u64, rounds: usize) -> Option<Vec<u8>> {
    use crate::model::chacha::{keystream, Family};
    let mut fill = [0u8; 16];
    fill.copy_from_slice(&data(seed | 16, 16));
    let goal = maead::forced_goal(sel, &fill);
    let sfx = maead::force_tag_suffix(key, nonce, aad, ct_so_far, &goal, seed, rounds)?;
    let pos = ct_so_far.len();
    let ks = keystream(Family::ChaChaIetf, key, nonce, 1 + (pos / 64) as u64, pos % 64, sfx.len(), rounds);
    Some(sfx.iter().zip(ks.iter()).map(|(a, b)| a ^ b).collect())
}

pub struct AeadFlow;

struct SHandle {
    obj: SenderObj,
    aad: Vec<u8>,
    pt: Vec<u8>,
    ct: Vec<u8>,
}

impl Scenario for AeadFlow {
    fn name(&self) -> &'static str {
        "aeadflow"
    }
    fn kinds(&self) -> &'static [&'static str] {
        F_KINDS
    }
    fn nontrivial_kind(&self, k: u8) -> bool {
        // a run with >= 2 ops where the message itself is delivered in pieces or forked
        k == F_DATA || k == F_FORK
    }
    fn nontrivial(&self, t: &Trace) -> bool {
        // AAD or data delivered in >= 2 pieces, or a fork of the sender context
        t.ops.iter().filter(|o| o.k == F_AAD).count() >= 2 || t.ops.iter().filter(|o| o.k == F_DATA).count() >= 2 || t.ops.iter().any(|o| o.k == F_FORK)
    }
    fn real_vs_stub(&self) -> &'static str {
        "real: chacha20poly1305::{ChaChaPoly1305 (new, encrypt, decrypt), Context (new, add_data, clone, to_encryption, to_decryption), ContextEncryption (encrypt, encrypt_mut, clone, finalize), ContextDecryption (decrypt, decrypt_mut, finalize)} for ROUNDS 8/12/20, 128- and 256-bit keys; stub: scheduler/PRNG, fault-free channel, independent RFC 8439 AEAD model (ChaCha block function + big-integer Poly1305)"
    }
    fn cover_rule(&self) -> &'static str {
        "(rounds, key length, sender path, receiver path, |aad| mod 16 class {0,1,15,other}, |pt| mod 16 class, |pt| vs 64 class {0,<64,=64,>64})"
    }
    fn generate(&self, rng: &mut Rng, _idx: u64, tier: Tier) -> Trace {
        let mut t = Trace::new("aeadflow", "chacha20poly1305");
        gen_common(rng, &mut t);
        t.set_p("sender_oneshot", rng.chance(1, 3) as u64);
        t.set_p("receiver_oneshot", rng.chance(1, 2) as u64);
        t.set_p("recv_seed", rng.data_seed());
        let big = tier == Tier::Thorough || rng.chance(1, 12);
        let huge = rng.chance(1, 30);
        let long = rng.chance(1, 300); // a long history now and then: dozens of AAD pieces, hundreds of data pieces
        let (big, huge) = if long { (false, false) } else { (big, huge) };
        let naad = if long { rng.range(0, 40) } else { rng.range(0, 3) };
        for _ in 0..naad {
            let dseed = match rng.below(10) { 0 => 0, 1 => 1, _ => rng.data_seed() };
            t.ops.push(Op::new(0, F_AAD).len(aead_len(rng, big)).seed(dseed).off(rng.below(32) as u8));
        }
        let mut handles = 1u8;
        let ndata = if long { rng.range(100, 400) } else { rng.range(0, 5) };
        let fork_ok = rng.chance(1, 2);
        for _ in 0..ndata {
            if fork_ok && handles < 3 && rng.chance(1, 4) {
                t.ops.push(Op::new(rng.below(handles as u64) as u8, F_FORK));
                handles += 1;
            }
            let h = rng.below(handles as u64) as u8;
            let len = if huge && rng.chance(1, 2) { aead_len_huge(rng) } else { aead_len(rng, big) };
            t.ops.push(Op::new(h, F_DATA).len(len).seed(match rng.below(5) { 0 => 0, _ => rng.data_seed() }).off(rng.below(2) as u8));
        }
        if huge && rng.chance(1, 3) {
            t.ops.insert(0, Op::new(0, F_AAD).len(aead_len_huge(rng)).seed(rng.data_seed()).off(rng.below(32) as u8));
        }
        if rng.chance(1, 6) {
            // the last piece of one handle is chosen so that the honest tag is all-zero, all-ones, ... (class = arg)
            t.ops.push(Op::new(rng.below(handles as u64) as u8, F_FORCE_TAG).arg(rng.below(8)).seed(rng.data_seed()).off(rng.below(2) as u8));
        }
        // sometimes AAD arrives after a fork that is still in the AAD phase
        if fork_ok && rng.chance(1, 6) {
            t.ops.insert(0, Op::new(0, F_FORK));
            t.ops.insert(1, Op::new(1, F_AAD).len(aead_len(rng, false)).seed(rng.data_seed()));
        }
        t
    }

    fn execute(&self, t: &Trace, obs: &mut Obs) -> Result<(), Violation> {
        let rounds = rounds_of(t);
        let (key, nonce) = key_nonce(t);
        let sender_oneshot = t.p("sender_oneshot") == 1;
        let receiver_oneshot = t.p("receiver_oneshot") == 1;
        let first = guarded(|| SenderObj::new(rounds, &key, &nonce)).map_err(|m| Violation::new("unexpected-panic", 0, "Context::new", m, "aead"))?;
        let mut hs: Vec<SHandle> = vec![SHandle { obj: first, aad: vec![], pt: vec![], ct: vec![] }];
        for (i, op) in t.ops.iter().enumerate() {
            let h = op.h as usize;
            if h >= hs.len() {
                continue;
            }
            obs.begin_op(i);
            match op.k {
                F_AAD => {
                    let hd = &mut hs[h];
                    if !hd.obj.in_aad_phase() {
                        continue; // the type system forbids AAD after to_encryption
                    }
                    let a = Aligned::new(op.seed, (op.len as usize).min(131072), (op.off % 32) as usize);
                    guarded(|| hd.obj.add_data(a.get())).map_err(|m| Violation::new("unexpected-panic", i, "add_data", m, "aead"))?;
                    hd.aad.extend_from_slice(a.get());
                }
                F_DATA => {
                    let hd = &mut hs[h];
                    let d = data(op.seed, (op.len as usize).min(131072));
                    if hd.obj.in_aad_phase() {
                        guarded(|| hd.obj.to_encryption()).map_err(|m| Violation::new("unexpected-panic", i, "to_encryption", m, "aead"))?;
                    }
                    let inplace = op.off & 1 == 1;
                    if !inplace {
                        obs.hit("fault.dirty_destination");
                    }
                    let c = guarded(|| hd.obj.encrypt(&d, inplace)).map_err(|m| Violation::new("unexpected-panic", i, "encrypt", m, "aead"))?;
                    obs.out(&c);
                    hd.pt.extend_from_slice(&d);
                    hd.ct.extend_from_slice(&c);
                }
                F_FORCE_TAG => {
                    let hd = &mut hs[h];
                    let d = match forcing_piece(&key, &nonce, &hd.aad, &hd.ct, op.arg, op.seed, rounds) {
                        Some(d) => d,
                        None => {
                            obs.hit("skipped.no_forcing_block_below_2^128");
                            continue;
                        }
                    };
                    obs.hit("fault.message_chosen_for_a_special_tag");
                    if hd.obj.in_aad_phase() {
                        guarded(|| hd.obj.to_encryption()).map_err(|m| Violation::new("unexpected-panic", i, "to_encryption", m, "aead"))?;
                    }
                    let c = guarded(|| hd.obj.encrypt(&d, op.off & 1 == 1)).map_err(|m| Violation::new("unexpected-panic", i, "encrypt", m, "aead"))?;
                    obs.out(&c);
                    hd.pt.extend_from_slice(&d);
                    hd.ct.extend_from_slice(&c);
                }
                F_FORK => {
                    if hs.len() >= 4 {
                        continue;
                    }
                    obs.hit(if hs[h].obj.in_aad_phase() { "fault.fork_in_aad_phase" } else { "fault.fork_in_data_phase" });
                    let hd = &hs[h];
                    let n = SHandle { obj: hd.obj.fork(), aad: hd.aad.clone(), pt: hd.pt.clone(), ct: hd.ct.clone() };
                    hs.push(n);
                }
                _ => {}
            }
        }
        // finalisation, refinement against the model, delivery, round trip
        let n = t.ops.len();
        for (hi, hd) in hs.into_iter().enumerate() {
            let SHandle { mut obj, aad, pt, ct } = hd;
            let (ct, tag) = if sender_oneshot {
                obs.hit("path.sender_oneshot");
                guarded(|| oneshot_encrypt(rounds, &key, &nonce, &aad, &pt)).map_err(|m| Violation::new("unexpected-panic", n, "one-shot encrypt", m, "aead"))?
            } else {
                obs.hit("path.sender_incremental");
                if obj.in_aad_phase() {
                    guarded(|| obj.to_encryption()).map_err(|m| Violation::new("unexpected-panic", n, "to_encryption", m, "aead"))?;
                }
                let tag = guarded(move || obj.finalize()).map_err(|m| Violation::new("unexpected-panic", n, "finalize", m, "aead"))?;
                (ct, tag)
            };
            obs.out(&ct);
            obs.out(&tag);
            let m = maead::seal(&key, &nonce, &aad, &pt, rounds);
            let c16 = |l: usize| match l % 16 { 0 => 0u32, 1 => 1, 15 => 2, _ => 3 };
            let c64 = |l: usize| if l == 0 { 0u32 } else if l < 64 { 1 } else if l == 64 { 2 } else { 3 };
            obs.cov(((rounds as u32) << 16) | ((key.len() as u32 / 16) << 12) | ((sender_oneshot as u32) << 11) | ((receiver_oneshot as u32) << 10) | (c16(aad.len()) << 6) | (c16(pt.len()) << 2) | c64(pt.len()));
            if m.pad_aad_zero {
                obs.hit("probe.pad16_added_zero_bytes_for_aad");
            }
            if m.pad_ct_zero {
                obs.hit("probe.pad16_added_zero_bytes_for_ciphertext");
            }
            if aad.is_empty() {
                obs.hit("probe.empty_aad");
            }
            if pt.is_empty() {
                obs.hit("probe.empty_plaintext");
            }
            if m.tag == [0u8; 16] {
                obs.hit("probe.honest_tag_all_zero");
            }
            if m.tag == [0xffu8; 16] {
                obs.hit("probe.honest_tag_all_ones");
            }
            if ct != m.ct {
                return Err(Violation::bytes("stream-mismatch", n, &m.ct, &ct, format!("aead R={} key{}: ciphertext of handle {} ({} bytes, aad {} bytes) differs from the RFC 8439 model", rounds, key.len() * 8, hi, pt.len(), aad.len())));
            }
            if tag != m.tag {
                return Err(Violation::bytes("tag-mismatch", n, &m.tag, &tag, format!("aead R={} key{}: tag of handle {} (pt {} bytes, aad {} bytes, sender {}) differs from the RFC 8439 model", rounds, key.len() * 8, hi, pt.len(), aad.len(), if sender_oneshot { "one-shot" } else { "incremental" })));
            }
            // receiver: independent path and fragmentation
            let (back, ok) = if receiver_oneshot {
                obs.hit("path.receiver_oneshot");
                guarded(|| oneshot_decrypt(rounds, &key, &nonce, &aad, &ct, &tag)).map_err(|m| Violation::new("unexpected-panic", n, "one-shot decrypt", m, "aead"))?
            } else {
                obs.hit("path.receiver_incremental");
                let inject = t.p("recv_seed") & 4 != 0;
                let (b, ok, st) = guarded(|| incremental_decrypt_faulty(rounds, &key, &nonce, &aad, &ct, &tag, t.p("recv_seed") ^ hi as u64, inject)).map_err(|m| Violation::new("unexpected-panic", n, "incremental decrypt", m, "aead"))?;
                match st {
                    AfterRefusal::NotInjected => {}
                    AfterRefusal::Completed => obs.hit("fault.receiver_call_refused_then_history_continued"),
                    AfterRefusal::LoudAgain => {
                        obs.hit("observed.loud_failure_after_an_earlier_refusal");
                        continue;
                    }
                    AfterRefusal::Accepted => {
                        obs.hit("observed.mismatched_buffer_accepted_not_judged_here");
                        continue;
                    }
                }
                (b, ok)
            };
            obs.out(&back);
            obs.out_flag("accept", ok);
            if !ok {
                return Err(Violation::new("rejected-honest", n, "success", "failure", format!("aead R={}: receiver ({}) rejected an untouched message (pt {} bytes, aad {} bytes)", rounds, if receiver_oneshot { "one-shot" } else { "incremental" }, pt.len(), aad.len())));
            }
            if back != pt {
                return Err(Violation::bytes("roundtrip-mismatch", n, &pt, &back, format!("aead R={}: decrypt did not return the plaintext", rounds)));
            }
        }
        Ok(())
    }
}

// ------------------------------------------------------------------ C07 aeadtamper

pub const M_NONE: u8 = 0;
pub const M_TAG_BIT: u8 = 1;
pub const M_CT_BIT: u8 = 2;
pub const M_AAD_BIT: u8 = 3;
pub const M_NONCE_BIT: u8 = 4;
pub const M_KEY_BIT: u8 = 5;
pub const M_CT_TRUNC: u8 = 6;
pub const M_CT_EXT_ZERO: u8 = 7;
pub const M_CT_EXT_GARBAGE: u8 = 8;
pub const M_AAD_TRUNC: u8 = 9;
pub const M_AAD_EXT_ZERO: u8 = 10;
pub const M_AAD_EXT_GARBAGE: u8 = 11;
pub const M_MOVE_AAD_TO_CT: u8 = 12;
pub const M_MOVE_CT_TO_AAD: u8 = 13;
pub const M_SWAP_AAD_CT: u8 = 14;
pub const M_SWAP_LENGTHS: u8 = 15;
pub const M_REPLAY_OTHER_NONCE: u8 = 16;
pub const M_ZERO_TAG: u8 = 17;
pub const M_TAG_OF_OTHER_MESSAGE: u8 = 18;
const T_KINDS: &[&str] = &[
    "deliver_untouched",
    "flip_tag_bit",
    "flip_ciphertext_bit",
    "flip_aad_bit",
    "flip_nonce_bit",
    "flip_key_bit",
    "truncate_ciphertext",
    "extend_ciphertext_zeros",
    "extend_ciphertext_garbage",
    "truncate_aad",
    "extend_aad_zeros",
    "extend_aad_garbage",
    "move_aad_tail_into_ciphertext",
    "move_ciphertext_head_into_aad",
    "swap_aad_and_ciphertext",
    "swap_length_roles",
    "replay_under_other_nonce",
    "all_zero_tag",
    "tag_of_other_message",
];

pub struct AeadTamper;

struct Tuple {
    key: Vec<u8>,
    nonce: [u8; 12],
    aad: Vec<u8>,
    ct: Vec<u8>,
    tag: [u8; 16],
}

fn flip(v: &mut [u8], bit: u64) -> bool {
    if v.is_empty() {
        return false;
    }
    let b = (bit as usize) % (v.len() * 8);
    v[b / 8] ^= 1 << (b % 8);
    true
}

impl AeadTamper {
    /// apply one catalogue entry; None = not applicable to this tuple (skipped)
    fn mutate(&self, honest: &Tuple, op: &Op, rounds: usize, pt: &[u8]) -> Option<Tuple> {
        let mut d = Tuple { key: honest.key.clone(), nonce: honest.nonce, aad: honest.aad.clone(), ct: honest.ct.clone(), tag: honest.tag };
        let a = op.arg;
        match op.k {
            M_NONE => {}
            M_TAG_BIT => {
                flip(&mut d.tag, a);
            }
            M_CT_BIT => {
                if !flip(&mut d.ct, a) {
                    return None;
                }
            }
            M_AAD_BIT => {
                if !flip(&mut d.aad, a) {
                    return None;
                }
            }
            M_NONCE_BIT => {
                flip(&mut d.nonce, a);
            }
            M_KEY_BIT => {
                flip(&mut d.key, a);
            }
            M_CT_TRUNC => {
                let n = a as usize;
                if n == 0 || d.ct.len() < n {
                    return None;
                }
                d.ct.truncate(d.ct.len() - n);
            }
            M_CT_EXT_ZERO => d.ct.extend(std::iter::repeat(0).take((a as usize).clamp(1, 64))),
            M_CT_EXT_GARBAGE => d.ct.extend_from_slice(&data(op.seed | 16, (a as usize).clamp(1, 64))),
            M_AAD_TRUNC => {
                let n = a as usize;
                if n == 0 || d.aad.len() < n {
                    return None;
                }
                d.aad.truncate(d.aad.len() - n);
            }
            M_AAD_EXT_ZERO => d.aad.extend(std::iter::repeat(0).take((a as usize).clamp(1, 64))),
            M_AAD_EXT_GARBAGE => d.aad.extend_from_slice(&data(op.seed | 16, (a as usize).clamp(1, 64))),
            M_MOVE_AAD_TO_CT => {
                let n = a as usize;
                if n == 0 || d.aad.len() < n {
                    return None;
                }
                let tail = d.aad.split_off(d.aad.len() - n);
                let mut nc = tail;
                nc.extend_from_slice(&d.ct);
                d.ct = nc;
            }
            M_MOVE_CT_TO_AAD => {
                let n = a as usize;
                if n == 0 || d.ct.len() < n {
                    return None;
                }
                let rest = d.ct.split_off(n);
                d.aad.extend_from_slice(&d.ct);
                d.ct = rest;
            }
            M_SWAP_AAD_CT => {
                core::mem::swap(&mut d.aad, &mut d.ct);
            }
            M_SWAP_LENGTHS => {
                // same byte stream aad||ct, boundary moved so that the two lengths trade places
                let mut all = d.aad.clone();
                all.extend_from_slice(&d.ct);
                let new_aad_len = d.ct.len();
                d.ct = all.split_off(new_aad_len);
                d.aad = all;
            }
            M_REPLAY_OTHER_NONCE => {
                d.nonce[(a % 12) as usize] = d.nonce[(a % 12) as usize].wrapping_add(1);
            }
            M_ZERO_TAG => d.tag = [0; 16],
            M_TAG_OF_OTHER_MESSAGE => {
                // honest tag of a different plaintext under the same key/nonce/aad
                let mut other = pt.to_vec();
                if other.is_empty() {
                    other.push(0x55);
                } else {
                    let i = (a as usize) % other.len();
                    other[i] ^= 0x80;
                }
                let (_, tag) = oneshot_encrypt(rounds, &honest.key, &honest.nonce, &honest.aad, &other);
                d.tag = tag;
            }
            _ => return None,
        }
        Some(d)
    }

    fn catalogue(&self, rng: &mut Rng, aad_len: usize, ct_len: usize, key_len: usize) -> Vec<Op> {
        let mut ops = Vec::new();
        let mut push = |k: u8, arg: u64, rng: &mut Rng| ops.push(Op::new(0, k).arg(arg).seed(rng.data_seed()));
        push(M_NONE, 0, rng);
        for b in 0..128 {
            push(M_TAG_BIT, b, rng);
        }
        let positions = |rng: &mut Rng, len: usize| -> Vec<u64> {
            let bits = len as u64 * 8;
            if bits == 0 {
                return vec![];
            }
            if len <= 64 {
                (0..bits).collect()
            } else {
                let mut v = vec![0, 7, bits - 1, bits - 8, 127, 128, 511, 512];
                for _ in 0..24 {
                    v.push(rng.below(bits));
                }
                v.retain(|x| *x < bits);
                v
            }
        };
        for b in positions(rng, ct_len) {
            push(M_CT_BIT, b, rng);
        }
        for b in positions(rng, aad_len) {
            push(M_AAD_BIT, b, rng);
        }
        for b in 0..96 {
            push(M_NONCE_BIT, b, rng);
        }
        for b in positions(rng, key_len) {
            push(M_KEY_BIT, b, rng);
        }
        for n in [1u64, 15, 16] {
            for k in [M_CT_TRUNC, M_CT_EXT_ZERO, M_CT_EXT_GARBAGE, M_AAD_TRUNC, M_AAD_EXT_ZERO, M_AAD_EXT_GARBAGE] {
                push(k, n, rng);
            }
        }
        for n in [1u64, 2, 15, 16, 17] {
            push(M_MOVE_AAD_TO_CT, n, rng);
            push(M_MOVE_CT_TO_AAD, n, rng);
        }
        push(M_MOVE_AAD_TO_CT, aad_len as u64, rng);
        push(M_MOVE_CT_TO_AAD, ct_len as u64, rng);
        push(M_SWAP_AAD_CT, 0, rng);
        push(M_SWAP_LENGTHS, 0, rng);
        for n in [0u64, 11] {
            push(M_REPLAY_OTHER_NONCE, n, rng);
        }
        push(M_ZERO_TAG, 0, rng);
        push(M_TAG_OF_OTHER_MESSAGE, rng.next_u64() >> 8, rng);
        ops
    }
}

impl Scenario for AeadTamper {
    fn name(&self) -> &'static str {
        "aeadtamper"
    }
    fn kinds(&self) -> &'static [&'static str] {
        T_KINDS
    }
    fn nontrivial_kind(&self, k: u8) -> bool {
        k != M_NONE
    }
    fn real_vs_stub(&self) -> &'static str {
        "real: ChaChaPoly1305 one-shot encrypt/decrypt and Context/ContextDecryption incremental decrypt (ROUNDS 8/12/20, 128/256-bit keys), Tag equality (constant_time::CtEqual); stub: scheduler/PRNG, the faulty channel, independent RFC 8439 tag model deciding the specified verdict"
    }
    fn cover_rule(&self) -> &'static str {
        "(rounds, key length, catalogue entry, delivered |aad| mod 16 class, delivered |ct| mod 16 class, specified verdict)"
    }
    fn generate(&self, rng: &mut Rng, _idx: u64, tier: Tier) -> Trace {
        let mut t = Trace::new("aeadtamper", "chacha20poly1305");
        gen_common(rng, &mut t);
        let big = tier == Tier::Thorough && rng.chance(1, 4);
        let huge = rng.chance(1, 120);
        let aad_len = if huge && rng.chance(1, 4) { aead_len_huge(rng) } else { aead_len(rng, big) };
        let pt_len = if huge { aead_len_huge(rng) } else { aead_len(rng, big) };
        t.set_p("aad_len", aad_len as u64);
        t.set_p("pt_len", pt_len as u64);
        t.set_p("aad_seed", match rng.below(6) { 0 => 0, _ => rng.data_seed() });
        t.set_p("pt_seed", match rng.below(6) { 0 => 0, _ => rng.data_seed() });
        let kl = if t.p("key_len") == 16 { 16 } else { 32 };
        // one run in five: the honest message is chosen (its last 17..48 bytes) so that its tag is a special value
        let force = if rng.chance(1, 5) { 1 + rng.below(8) } else { 0 };
        t.set_p("force_tag", force);
        t.ops = self.catalogue(rng, aad_len, pt_len + if force > 0 { 32 } else { 0 }, kl);
        t
    }

    fn execute(&self, t: &Trace, obs: &mut Obs) -> Result<(), Violation> {
        let rounds = rounds_of(t);
        let (key, nonce) = key_nonce(t);
        let aad = data(t.p("aad_seed"), (t.p("aad_len") as usize).min(131072));
        let mut pt = data(t.p("pt_seed"), (t.p("pt_len") as usize).min(131072));
        if t.p("force_tag") > 0 {
            // the Byzantine-free but unlucky case: an honest message whose tag is all-zero, all-ones, ...
            let ks = crate::model::chacha::keystream(crate::model::chacha::Family::ChaChaIetf, &key, &nonce, 1, 0, pt.len(), rounds);
            let ct0: Vec<u8> = pt.iter().zip(ks.iter()).map(|(a, b)| a ^ b).collect();
            match forcing_piece(&key, &nonce, &aad, &ct0, t.p("force_tag") - 1, t.p("pt_seed") ^ 0xf0, rounds) {
                Some(d) => {
                    pt.extend_from_slice(&d);
                    obs.hit("fault.message_chosen_for_a_special_tag");
                }
                None => obs.hit("skipped.no_forcing_block_below_2^128"),
            }
        }
        // honest sender (real code)
        let (ct, tag) = guarded(|| oneshot_encrypt(rounds, &key, &nonce, &aad, &pt)).map_err(|m| Violation::new("unexpected-panic", 0, "one-shot encrypt", m, "aead"))?;
        let honest = Tuple { key: key.clone(), nonce, aad: aad.clone(), ct, tag };
        for (i, op) in t.ops.iter().enumerate() {
            let d = match self.mutate(&honest, op, rounds, &pt) {
                Some(d) => d,
                None => continue,
            };
            obs.begin_op(i);
            obs.hit(match op.k {
                M_NONE => "channel.untouched",
                M_TAG_BIT => "fault.flip_tag_bit",
                M_CT_BIT => "fault.flip_ciphertext_bit",
                M_AAD_BIT => "fault.flip_aad_bit",
                M_NONCE_BIT => "fault.flip_nonce_bit",
                M_KEY_BIT => "fault.flip_key_bit",
                M_CT_TRUNC | M_AAD_TRUNC => "fault.truncate",
                M_CT_EXT_ZERO | M_CT_EXT_GARBAGE | M_AAD_EXT_ZERO | M_AAD_EXT_GARBAGE => "fault.extend",
                M_MOVE_AAD_TO_CT | M_MOVE_CT_TO_AAD => "fault.move_aad_ciphertext_boundary",
                M_SWAP_AAD_CT => "fault.swap_aad_and_ciphertext",
                M_SWAP_LENGTHS => "fault.swap_length_roles",
                M_REPLAY_OTHER_NONCE => "fault.replay_under_other_nonce",
                M_ZERO_TAG => "fault.all_zero_tag",
                _ => "fault.tag_of_other_message",
            });
            // specified verdict: the delivered tag is the RFC 8439 tag of exactly the delivered inputs
            let spec_tag = maead::tag_for(&d.key, &d.nonce, &d.aad, &d.ct, rounds);
            let spec_accept = spec_tag == d.tag;
            let untouched = d.key == honest.key && d.nonce == honest.nonce && d.aad == honest.aad && d.ct == honest.ct && d.tag == honest.tag;
            if spec_accept && !untouched {
                obs.hit("probe.altered_tuple_with_valid_tag");
            }
            let c16 = |l: usize| match l % 16 { 0 => 0u32, 1 => 1, 15 => 2, _ => 3 };
            obs.cov(((rounds as u32) << 16) | ((d.key.len() as u32 / 16) << 14) | ((op.k as u32) << 6) | (c16(d.aad.len()) << 3) | (c16(d.ct.len()) << 1) | spec_accept as u32);
            let (p1, v1) = guarded(|| oneshot_decrypt(rounds, &d.key, &d.nonce, &d.aad, &d.ct, &d.tag)).map_err(|m| Violation::new("unexpected-panic", i, "one-shot decrypt", m, T_KINDS[op.k as usize]))?;
            // the incremental receiver sometimes has one call refused (mismatched buffer length) before it goes on
            let (p2, v2, st) = guarded(|| incremental_decrypt_faulty(rounds, &d.key, &d.nonce, &d.aad, &d.ct, &d.tag, op.seed, op.seed & 8 != 0)).map_err(|m| Violation::new("unexpected-panic", i, "incremental decrypt", m, T_KINDS[op.k as usize]))?;
            match st {
                AfterRefusal::NotInjected => {}
                AfterRefusal::Completed => obs.hit("fault.receiver_call_refused_then_history_continued"),
                AfterRefusal::LoudAgain => {
                    obs.hit("observed.loud_failure_after_an_earlier_refusal");
                    continue;
                }
                AfterRefusal::Accepted => {
                    obs.hit("observed.mismatched_buffer_accepted_not_judged_here");
                    continue;
                }
            }
            obs.out_flag("oneshot", v1);
            obs.out_flag("incremental", v2);
            let what = format!("aead R={} key{}: delivery '{}' arg {} (aad {} bytes, ct {} bytes)", rounds, d.key.len() * 8, T_KINDS[op.k as usize], op.arg, d.aad.len(), d.ct.len());
            if v1 != v2 {
                return Err(Violation::new("verdicts-differ", i, format!("one-shot={}", v1), format!("incremental={}", v2), what));
            }
            if v1 && !spec_accept {
                return Err(Violation::new("accepted-corrupted", i, "failure", "success", what));
            }
            if !v1 && spec_accept {
                return Err(Violation::new("rejected-honest", i, "success", "failure", what));
            }
            if v1 && untouched && (p1 != pt || p2 != pt) {
                return Err(Violation::bytes("roundtrip-mismatch", i, &pt, &p1, what));
            }
        }
        Ok(())
    }
}
