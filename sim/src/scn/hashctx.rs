//! C02 — hash contexts: any split, clone, reset or reuse gives the one-call digest.
//!
//! Actors: up to 4 live handles (forks share history up to the fork). Scheduler: which handle
//! acts next with which operation. Faults: reset / reset_with_key / finalize_reset at an
//! arbitrary instant, fork mid-stream, fragmentation on/around block boundaries, misaligned
//! input slices. Oracle: the library's own one-call digest of the model's byte log.

use crate::guard::guarded;
use crate::rng::{Aligned, Rng};
use crate::trace::{Obs, Op, Scenario, Tier, Trace, Violation};
use cryptoxide::hashing::{blake2b, blake2s, keccak, ripemd160, sha1, sha2, sha3};

pub const K_UPDATE: u8 = 0; // by-value update
pub const K_UPDATE_MUT: u8 = 1;
pub const K_FORK: u8 = 2;
pub const K_RESET: u8 = 3;
pub const K_RESET_KEY: u8 = 4; // arg = key length, seed = key seed
pub const K_FINRESET: u8 = 5;
pub const K_FINRESET_KEY: u8 = 6;
pub const K_FINALIZE: u8 = 7; // retires the handle; off&1 selects finalize_at where both exist
pub const K_INVALID: u8 = 8; // BLAKE2 only: a call the API refuses (wrong output buffer / over-long key), made on the live object; arg selects which
const KINDS: &[&str] = &["update", "update_mut", "fork", "reset", "reset_with_key", "finalize_reset", "finalize_reset_with_key", "finalize", "refused_call"];

pub trait HashObj {
    fn update_val(&mut self, d: &[u8]);
    fn update_mut(&mut self, d: &[u8]);
    fn fork(&self) -> Box<dyn HashObj>;
    /// Clone::clone_from into an existing context of the same type that holds other pending bytes (`junk`, fed after an
    /// optional reset): the destination's previous contents must not show
    fn fork_into(&self, junk: &[u8], reset_first: bool) -> Box<dyn HashObj>;
    fn reset(&mut self);
    fn finalize_reset(&mut self, alt: bool) -> Vec<u8>;
    fn finalize(self: Box<Self>, alt: bool) -> Vec<u8>;
    fn reset_with_key(&mut self, _k: &[u8]) {
        unreachable!()
    }
    fn finalize_reset_with_key(&mut self, _k: &[u8], _alt: bool) -> Vec<u8> {
        unreachable!()
    }
    /// a call the API defines as invalid, made on the live object (BLAKE2 only): 0 = finalize_reset_at into a buffer one byte
    /// too long, 1 = one byte too short, 2 = finalize_reset_with_key_at with a valid key and a wrong buffer, 3 = the same with a
    /// key one byte too long and the right buffer, 4 = reset_with_key with a key one byte too long. Must not return.
    fn invalid_call(&mut self, _which: u64, _max_key: usize) {
        unreachable!()
    }
}

macro_rules! plain_obj {
    ($wrap:ident, $ctx:ty) => {
        struct $wrap($ctx);
        impl HashObj for $wrap {
            fn update_val(&mut self, d: &[u8]) {
                let old = core::mem::replace(&mut self.0, <$ctx>::new());
                self.0 = old.update(d);
            }
            fn update_mut(&mut self, d: &[u8]) {
                self.0.update_mut(d)
            }
            fn fork(&self) -> Box<dyn HashObj> {
                Box::new($wrap(self.0.clone()))
            }
            fn fork_into(&self, junk: &[u8], reset_first: bool) -> Box<dyn HashObj> {
                let mut dst = self.0.clone();
                if reset_first {
                    dst.reset();
                }
                dst.update_mut(junk);
                dst.clone_from(&self.0);
                Box::new($wrap(dst))
            }
            fn reset(&mut self) {
                self.0.reset()
            }
            fn finalize_reset(&mut self, _alt: bool) -> Vec<u8> {
                self.0.finalize_reset().to_vec()
            }
            fn finalize(self: Box<Self>, _alt: bool) -> Vec<u8> {
                self.0.finalize().to_vec()
            }
        }
    };
}

plain_obj!(OSha1, sha1::Context);
plain_obj!(OSha224, sha2::Context224);
plain_obj!(OSha256, sha2::Context256);
plain_obj!(OSha384, sha2::Context384);
plain_obj!(OSha512, sha2::Context512);
plain_obj!(OSha512_224, sha2::Context512_224);
plain_obj!(OSha512_256, sha2::Context512_256);
plain_obj!(OSha3_224, sha3::Context224);
plain_obj!(OSha3_256, sha3::Context256);
plain_obj!(OSha3_384, sha3::Context384);
plain_obj!(OSha3_512, sha3::Context512);
plain_obj!(OKeccak224, keccak::Context224);
plain_obj!(OKeccak256, keccak::Context256);
plain_obj!(OKeccak384, keccak::Context384);
plain_obj!(OKeccak512, keccak::Context512);
plain_obj!(ORipemd160, ripemd160::Context);

// BLAKE2 with const output size. `$fin` = true when finalize()/finalize_reset() (array returning) exist.
macro_rules! blake_const_obj {
    ($wrap:ident, $m:ident, $bits:literal, true) => {
        struct $wrap($m::Context<$bits>);
        impl HashObj for $wrap {
            blake_common!($m::Context<$bits>, $wrap, ($bits + 7) / 8);
            fn invalid_call(&mut self, which: u64, max_key: usize) {
                let n = ($bits + 7) / 8;
                match which % 5 {
                    0 => self.0.finalize_reset_at(&mut vec![0u8; n + 1]),
                    1 => self.0.finalize_reset_at(&mut vec![0u8; n - 1]),
                    2 => self.0.finalize_reset_with_key_at(&[7u8; 3], &mut vec![0u8; n + 1]),
                    3 => self.0.finalize_reset_with_key_at(&vec![7u8; max_key + 1], &mut vec![0u8; n]),
                    _ => self.0.reset_with_key(&vec![7u8; max_key + 1]),
                }
            }
            fn finalize_reset(&mut self, alt: bool) -> Vec<u8> {
                if alt {
                    let mut out = vec![0x5au8; ($bits + 7) / 8];
                    self.0.finalize_reset_at(&mut out);
                    out
                } else {
                    self.0.finalize_reset().to_vec()
                }
            }
            fn finalize(self: Box<Self>, alt: bool) -> Vec<u8> {
                if alt {
                    let mut out = vec![0x5au8; ($bits + 7) / 8];
                    self.0.finalize_at(&mut out);
                    out
                } else {
                    self.0.finalize().to_vec()
                }
            }
            fn finalize_reset_with_key(&mut self, k: &[u8], alt: bool) -> Vec<u8> {
                if alt {
                    let mut out = vec![0x5au8; ($bits + 7) / 8];
                    self.0.finalize_reset_with_key_at(k, &mut out);
                    out
                } else {
                    self.0.finalize_reset_with_key(k).to_vec()
                }
            }
        }
    };
    ($wrap:ident, $m:ident, $bits:literal, false) => {
        struct $wrap($m::Context<$bits>);
        impl HashObj for $wrap {
            blake_common!($m::Context<$bits>, $wrap, ($bits + 7) / 8);
            fn invalid_call(&mut self, which: u64, max_key: usize) {
                let n = ($bits + 7) / 8;
                match which % 5 {
                    0 => self.0.finalize_reset_at(&mut vec![0u8; n + 1]),
                    1 => self.0.finalize_reset_at(&mut vec![0u8; n - 1]),
                    2 => self.0.finalize_reset_with_key_at(&[7u8; 3], &mut vec![0u8; n + 1]),
                    3 => self.0.finalize_reset_with_key_at(&vec![7u8; max_key + 1], &mut vec![0u8; n]),
                    _ => self.0.reset_with_key(&vec![7u8; max_key + 1]),
                }
            }
            fn finalize_reset(&mut self, _alt: bool) -> Vec<u8> {
                let mut out = vec![0x5au8; ($bits + 7) / 8];
                self.0.finalize_reset_at(&mut out);
                out
            }
            fn finalize(self: Box<Self>, _alt: bool) -> Vec<u8> {
                let mut out = vec![0x5au8; ($bits + 7) / 8];
                self.0.finalize_at(&mut out);
                out
            }
            fn finalize_reset_with_key(&mut self, k: &[u8], _alt: bool) -> Vec<u8> {
                let mut out = vec![0x5au8; ($bits + 7) / 8];
                self.0.finalize_reset_with_key_at(k, &mut out);
                out
            }
        }
    };
}

macro_rules! blake_common {
    ($ctx:ty, $wrap:ident, $outlen:expr) => {
        fn update_val(&mut self, d: &[u8]) {
            let old = core::mem::replace(&mut self.0, <$ctx>::new());
            self.0 = old.update(d);
        }
        fn update_mut(&mut self, d: &[u8]) {
            self.0.update_mut(d)
        }
        fn fork(&self) -> Box<dyn HashObj> {
            Box::new($wrap(self.0.clone()))
        }
        fn fork_into(&self, junk: &[u8], reset_first: bool) -> Box<dyn HashObj> {
            let mut dst = self.0.clone();
            if reset_first {
                dst.reset();
            }
            dst.update_mut(junk);
            dst.clone_from(&self.0);
            Box::new($wrap(dst))
        }
        fn reset(&mut self) {
            self.0.reset()
        }
        fn reset_with_key(&mut self, k: &[u8]) {
            self.0.reset_with_key(k)
        }
    };
}

blake_const_obj!(OB2b8, blake2b, 8, false);
blake_const_obj!(OB2b9, blake2b, 9, false);
blake_const_obj!(OB2b160, blake2b, 160, false);
blake_const_obj!(OB2b224, blake2b, 224, true);
blake_const_obj!(OB2b256, blake2b, 256, true);
blake_const_obj!(OB2b384, blake2b, 384, true);
blake_const_obj!(OB2b512, blake2b, 512, true);
blake_const_obj!(OB2s8, blake2s, 8, false);
blake_const_obj!(OB2s9, blake2s, 9, false);
blake_const_obj!(OB2s160, blake2s, 160, false);
blake_const_obj!(OB2s224, blake2s, 224, true);
blake_const_obj!(OB2s256, blake2s, 256, true);

macro_rules! blake_dyn_obj {
    ($wrap:ident, $m:ident) => {
        struct $wrap($m::ContextDyn, usize);
        impl HashObj for $wrap {
            fn update_val(&mut self, d: &[u8]) {
                let old = core::mem::replace(&mut self.0, $m::ContextDyn::new(1));
                self.0 = old.update(d);
            }
            fn update_mut(&mut self, d: &[u8]) {
                self.0.update_mut(d)
            }
            fn fork(&self) -> Box<dyn HashObj> {
                Box::new($wrap(self.0.clone(), self.1))
            }
            fn fork_into(&self, junk: &[u8], reset_first: bool) -> Box<dyn HashObj> {
                let mut dst = self.0.clone();
                if reset_first {
                    dst.reset();
                }
                dst.update_mut(junk);
                dst.clone_from(&self.0);
                Box::new($wrap(dst, self.1))
            }
            fn reset(&mut self) {
                self.0.reset()
            }
            fn reset_with_key(&mut self, k: &[u8]) {
                self.0.reset_with_key(k)
            }
            fn finalize_reset(&mut self, _alt: bool) -> Vec<u8> {
                let mut out = vec![0x5au8; self.1];
                self.0.finalize_reset_at(&mut out);
                out
            }
            fn finalize(self: Box<Self>, _alt: bool) -> Vec<u8> {
                let mut out = vec![0x5au8; self.1];
                self.0.finalize_at(&mut out);
                out
            }
            fn finalize_reset_with_key(&mut self, k: &[u8], _alt: bool) -> Vec<u8> {
                let mut out = vec![0x5au8; self.1];
                self.0.finalize_reset_with_key_at(k, &mut out);
                out
            }
            fn invalid_call(&mut self, which: u64, max_key: usize) {
                let n = self.1;
                match which % 5 {
                    0 => self.0.finalize_reset_at(&mut vec![0u8; n + 1]),
                    1 => self.0.finalize_reset_at(&mut vec![0u8; n - 1]),
                    2 => self.0.finalize_reset_with_key_at(&[7u8; 3], &mut vec![0u8; n + 1]),
                    3 => self.0.finalize_reset_with_key_at(&vec![7u8; max_key + 1], &mut vec![0u8; n]),
                    _ => self.0.reset_with_key(&vec![7u8; max_key + 1]),
                }
            }
        }
    };
}
blake_dyn_obj!(OB2bDyn, blake2b);
blake_dyn_obj!(OB2sDyn, blake2s);

#[derive(Clone, Copy)]
pub struct Variant {
    pub name: &'static str,
    /// block size or sponge rate
    pub block: usize,
    /// 0 = not BLAKE2; else max key length
    pub max_key: usize,
    /// dynamic output length variants take `outlen` from params
    pub dynamic: bool,
    /// BLAKE2 keeps a full last block back (strict > rule)
    pub sha256_family: bool,
}

const fn v(name: &'static str, block: usize) -> Variant {
    Variant { name, block, max_key: 0, dynamic: false, sha256_family: false }
}
const fn vb(name: &'static str, block: usize, max_key: usize, dynamic: bool) -> Variant {
    Variant { name, block, max_key, dynamic, sha256_family: false }
}

pub const VARIANTS: &[Variant] = &[
    v("sha1", 64),
    Variant { name: "sha224", block: 64, max_key: 0, dynamic: false, sha256_family: true },
    Variant { name: "sha256", block: 64, max_key: 0, dynamic: false, sha256_family: true },
    v("sha384", 128),
    v("sha512", 128),
    v("sha512_224", 128),
    v("sha512_256", 128),
    v("sha3_224", 144),
    v("sha3_256", 136),
    v("sha3_384", 104),
    v("sha3_512", 72),
    v("keccak224", 144),
    v("keccak256", 136),
    v("keccak384", 104),
    v("keccak512", 72),
    v("ripemd160", 64),
    vb("blake2b_8", 128, 64, false),
    vb("blake2b_9", 128, 64, false),
    vb("blake2b_160", 128, 64, false),
    vb("blake2b_224", 128, 64, false),
    vb("blake2b_256", 128, 64, false),
    vb("blake2b_384", 128, 64, false),
    vb("blake2b_512", 128, 64, false),
    vb("blake2b_dyn", 128, 64, true),
    vb("blake2s_8", 64, 32, false),
    vb("blake2s_9", 64, 32, false),
    vb("blake2s_160", 64, 32, false),
    vb("blake2s_224", 64, 32, false),
    vb("blake2s_256", 64, 32, false),
    vb("blake2s_dyn", 64, 32, true),
];

pub fn variant(name: &str) -> Option<(usize, Variant)> {
    VARIANTS.iter().position(|x| x.name == name).map(|i| (i, VARIANTS[i]))
}

/// Construct the real object. `key` empty = unkeyed.
pub fn make(name: &str, outlen: usize, key: &[u8]) -> Box<dyn HashObj> {
    make_via(name, outlen, key, false)
}

/// `marker`: construct const-size BLAKE2 contexts through the algorithm marker types (`Blake2b::<BITS>::new[_keyed]`,
/// `Blake2s::<BITS>::new[_keyed]`) instead of `Context::<BITS>::new[_keyed]`; both are documented constructors
pub fn make_via(name: &str, outlen: usize, key: &[u8], marker: bool) -> Box<dyn HashObj> {
    macro_rules! b2 {
        ($w:ident, blake2b, $bits:literal) => {
            Box::new($w(match (key.is_empty(), marker) {
                (true, false) => blake2b::Context::<$bits>::new(),
                (true, true) => blake2b::Blake2b::<$bits>::new(),
                (false, false) => blake2b::Context::<$bits>::new_keyed(key),
                (false, true) => blake2b::Blake2b::<$bits>::new_keyed(key),
            }))
        };
        ($w:ident, blake2s, $bits:literal) => {
            Box::new($w(match (key.is_empty(), marker) {
                (true, false) => blake2s::Context::<$bits>::new(),
                (true, true) => blake2s::Blake2s::<$bits>::new(),
                (false, false) => blake2s::Context::<$bits>::new_keyed(key),
                (false, true) => blake2s::Blake2s::<$bits>::new_keyed(key),
            }))
        };
    }
    match name {
        "sha1" => Box::new(OSha1(sha1::Context::new())),
        "sha224" => Box::new(OSha224(sha2::Context224::new())),
        "sha256" => Box::new(OSha256(sha2::Context256::new())),
        "sha384" => Box::new(OSha384(sha2::Context384::new())),
        "sha512" => Box::new(OSha512(sha2::Context512::new())),
        "sha512_224" => Box::new(OSha512_224(sha2::Context512_224::new())),
        "sha512_256" => Box::new(OSha512_256(sha2::Context512_256::new())),
        "sha3_224" => Box::new(OSha3_224(sha3::Context224::new())),
        "sha3_256" => Box::new(OSha3_256(sha3::Context256::new())),
        "sha3_384" => Box::new(OSha3_384(sha3::Context384::new())),
        "sha3_512" => Box::new(OSha3_512(sha3::Context512::new())),
        "keccak224" => Box::new(OKeccak224(keccak::Context224::new())),
        "keccak256" => Box::new(OKeccak256(keccak::Context256::new())),
        "keccak384" => Box::new(OKeccak384(keccak::Context384::new())),
        "keccak512" => Box::new(OKeccak512(keccak::Context512::new())),
        "ripemd160" => Box::new(ORipemd160(ripemd160::Context::new())),
        "blake2b_8" => b2!(OB2b8, blake2b, 8),
        "blake2b_9" => b2!(OB2b9, blake2b, 9),
        "blake2b_160" => b2!(OB2b160, blake2b, 160),
        "blake2b_224" => b2!(OB2b224, blake2b, 224),
        "blake2b_256" => b2!(OB2b256, blake2b, 256),
        "blake2b_384" => b2!(OB2b384, blake2b, 384),
        "blake2b_512" => b2!(OB2b512, blake2b, 512),
        "blake2s_8" => b2!(OB2s8, blake2s, 8),
        "blake2s_9" => b2!(OB2s9, blake2s, 9),
        "blake2s_160" => b2!(OB2s160, blake2s, 160),
        "blake2s_224" => b2!(OB2s224, blake2s, 224),
        "blake2s_256" => b2!(OB2s256, blake2s, 256),
        "blake2b_dyn" => Box::new(OB2bDyn(if key.is_empty() { blake2b::ContextDyn::new(outlen) } else { blake2b::ContextDyn::new_keyed(outlen, key) }, outlen)),
        "blake2s_dyn" => Box::new(OB2sDyn(if key.is_empty() { blake2s::ContextDyn::new(outlen) } else { blake2s::ContextDyn::new_keyed(outlen, key) }, outlen)),
        _ => panic!("unknown hash variant {}", name),
    }
}

/// The library's own one-call path on a fresh context (self-referential ground truth).
pub fn oneshot(name: &str, outlen: usize, key: &[u8], msg: &[u8]) -> Vec<u8> {
    use cryptoxide::hashing as h;
    if key.is_empty() {
        match name {
            "sha1" => return h::sha1(msg).to_vec(),
            "sha224" => return h::sha224(msg).to_vec(),
            "sha256" => return h::sha256(msg).to_vec(),
            "sha384" => return h::sha384(msg).to_vec(),
            "sha512" => return h::sha512(msg).to_vec(),
            "sha512_224" => return sha2::Sha512Trunc224::new().update(msg).finalize().to_vec(),
            "sha512_256" => return sha2::Sha512Trunc256::new().update(msg).finalize().to_vec(),
            "sha3_224" => return h::sha3_224(msg).to_vec(),
            "sha3_256" => return h::sha3_256(msg).to_vec(),
            "sha3_384" => return h::sha3_384(msg).to_vec(),
            "sha3_512" => return h::sha3_512(msg).to_vec(),
            "keccak224" => return h::keccak224(msg).to_vec(),
            "keccak256" => return h::keccak256(msg).to_vec(),
            "keccak384" => return h::keccak384(msg).to_vec(),
            "keccak512" => return h::keccak512(msg).to_vec(),
            "ripemd160" => return h::ripemd160(msg).to_vec(),
            "blake2b_224" => return h::blake2b_224(msg).to_vec(),
            "blake2b_256" => return h::blake2b_256(msg).to_vec(),
            "blake2b_384" => return h::blake2b_384(msg).to_vec(),
            "blake2b_512" => return h::blake2b_512(msg).to_vec(),
            "blake2s_224" => return h::blake2s_224(msg).to_vec(),
            "blake2s_256" => return h::blake2s_256(msg).to_vec(),
            _ => {}
        }
    }
    // keyed or odd-size BLAKE2: fresh context, one update, finalize
    let mut o = make(name, outlen, key);
    o.update_val(msg);
    o.finalize(true)
}

pub struct HashCtx;

struct Handle {
    obj: Box<dyn HashObj>,
    key: Vec<u8>,
    log: Vec<u8>,
    /// a call on this object was refused loudly earlier (the model is unchanged by it): later calls may fail loudly too -
    /// the handle is then retired - but a call that returns must return the right digest
    refused: bool,
    /// the refused call was finalize_reset_with_key_at with an over-long key (named finding: finalised before refusing)
    late_key: bool,
}

/// Sizes at which buffered, strided or multi-buffer implementations switch paths (4 KiB, 16 KiB, 64 KiB, 128 KiB,
/// 256 KiB, 1 MiB, each with its neighbours); used rarely, by every scenario that moves bulk data
pub fn big_len(rng: &mut Rng, very: bool) -> usize {
    const MENU: [usize; 15] = [4095, 4096, 4097, 16383, 16384, 16385, 65535, 65536, 65537, 131071, 131072, 131073, 262144, 262145, 300000];
    const VERY: [usize; 4] = [1 << 20, (1 << 20) + 1, (1 << 20) - 1, 1_500_000];
    if very && rng.chance(1, 4) {
        *rng.pick(&VERY)
    } else {
        *rng.pick(&MENU)
    }
}

/// Chunk menu built from the variant's own block size / rate (DESIGN §2.3)
pub fn chunk_len(rng: &mut Rng, b: usize, fill: usize, big_ok: bool) -> usize {
    let rem = b - (fill % b);
    match rng.below(24) {
        0 => 0,
        1 => 1,
        2 => b - 1,
        3 => b,
        4 => b + 1,
        5 => 2 * b - 1,
        6 => 2 * b,
        7 => 2 * b + 1,
        8 => 3 * b + 1,
        9 => 4 * b,
        10 => 8 * b,
        11 => 20 * b,
        // relative to the current buffer fill: complete the block exactly / one short / one over
        12 | 13 => rem,
        14 => rem.saturating_sub(1),
        15 => rem + 1,
        16 => rem + b,
        17 => rem + b - 1,
        18 => {
            if big_ok && rng.chance(1, 8) {
                if rng.chance(1, 6) {
                    { let very = rng.chance(1, 8); big_len(rng, very) }
                } else {
                    rng.range(1, 65536) as usize
                }
            } else {
                rng.below(4 * b as u64) as usize
            }
        }
        _ => rng.below(4 * b as u64) as usize,
    }
}

pub fn key_len(rng: &mut Rng, max: usize) -> usize {
    match rng.below(6) {
        0 => 0,
        1 => 1,
        2 => 16.min(max),
        3 => max - 1,
        4 => max,
        _ => rng.range(1, max as u64) as usize,
    }
}

impl HashCtx {
    fn gen_random(&self, rng: &mut Rng, tier: Tier) -> Trace {
        let var = *rng.pick(VARIANTS);
        let mut t = Trace::new("hashctx", var.name);
        let b = var.block;
        if var.dynamic {
            t.set_p("outlen", rng.range(1, var.max_key as u64));
        }
        let keyed0 = var.max_key > 0 && rng.chance(1, 2);
        let klen0 = if keyed0 { key_len(rng, var.max_key).max(1) } else { 0 };
        t.set_p("key_len", klen0 as u64);
        t.set_p("key_seed", rng.data_seed());

        // swarm configuration
        let max_handles = rng.range(1, 4) as usize;
        // one run in 300 is a long history (several hundred calls on the same objects)
        let max_steps = if rng.chance(1, 300) { rng.range(300, 700) } else if tier == Tier::Thorough && rng.chance(1, 10) { rng.range(20, 80) } else { rng.range(3, 40) } as usize;
        let mut w = [10u32, 10, 0, 0, 0, 0, 0, 0, 0];
        // misuse-injecting configuration (BLAKE2 only, a quarter of the runs): a refused call now and then, history goes on
        if var.max_key > 0 && rng.chance(1, 4) {
            w[K_INVALID as usize] = 1;
        }
        if rng.chance(1, 4) {
            w[K_UPDATE as usize] = 0;
        } else if rng.chance(1, 4) {
            w[K_UPDATE_MUT as usize] = 0;
        }
        if rng.chance(2, 3) {
            w[K_FORK as usize] = rng.range(1, 4) as u32;
        }
        if rng.chance(1, 2) {
            w[K_RESET as usize] = rng.range(1, 3) as u32;
        }
        if rng.chance(1, 2) {
            w[K_FINRESET as usize] = rng.range(1, 3) as u32;
        }
        if var.max_key > 0 && rng.chance(1, 2) {
            w[K_RESET_KEY as usize] = rng.range(1, 3) as u32;
            w[K_FINRESET_KEY as usize] = rng.range(0, 2) as u32;
        }
        if rng.chance(1, 2) {
            w[K_FINALIZE as usize] = 1;
        }
        let aligned_only = rng.chance(1, 6); // "block-aligned chunks only" swarm setting
        let tiny_only = rng.chance(1, 8);
        let big_ok = tier == Tier::Thorough || rng.chance(1, 10);
        let misalign = rng.chance(1, 2);

        // generator-side shadow of the model: alive flags and log length per handle
        let mut fills: Vec<Option<usize>> = vec![Some(if klen0 > 0 { b } else { 0 })];
        let mut total: usize = 0;
        for _ in 0..max_steps {
            let alive: Vec<usize> = fills.iter().enumerate().filter(|(_, f)| f.is_some()).map(|(i, _)| i).collect();
            if alive.is_empty() {
                break;
            }
            let h = *rng.pick(&alive);
            let mut k = rng.weighted(&w) as u8;
            if k == K_FORK && (fills.len() >= max_handles || fills.len() >= 4) {
                k = K_UPDATE_MUT;
            }
            let fill = fills[h].unwrap();
            match k {
                K_UPDATE | K_UPDATE_MUT => {
                    let mut len = if aligned_only {
                        b * rng.range(0, 4) as usize
                    } else if tiny_only {
                        rng.below(4) as usize
                    } else {
                        chunk_len(rng, b, fill, big_ok)
                    };
                    if total + len > 2 * 1024 * 1024 {
                        len = 1;
                    }
                    total += len;
                    let off = if misalign { rng.below(32) as u8 } else { 0 };
                    // data value classes: mostly random, sometimes all-zero / all-ones (value-dependent fast paths)
                    let dseed = match rng.below(16) { 0 => 0, 1 => 1, _ => rng.data_seed() };
                    t.ops.push(Op::new(h as u8, k).len(len).off(off).seed(dseed));
                    fills[h] = Some(fill + len);
                    // fault placement bias: reset-class op right after a chunk that left the
                    // buffer one byte short of full / exactly full
                    if (fill + len) % b == b - 1 || ((fill + len) % b == 0 && len > 0) {
                        if rng.chance(1, 4) && w[K_RESET as usize] + w[K_FINRESET as usize] > 0 {
                            let kk = if rng.chance(1, 2) { K_RESET } else { K_FINRESET };
                            t.ops.push(Op::new(h as u8, kk).off(rng.below(2) as u8));
                            fills[h] = Some(0);
                        }
                    }
                }
                K_FORK => {
                    // a third of the forks go through Clone::clone_from into a context holding arg-1 other pending bytes
                    let into = if rng.chance(1, 3) { 1 + rng.below(2 * b as u64 + 2) } else { 0 };
                    t.ops.push(Op::new(h as u8, K_FORK).arg(into).off(rng.below(2) as u8).seed(rng.data_seed()));
                    fills.push(Some(fill));
                }
                K_INVALID => {
                    t.ops.push(Op::new(h as u8, K_INVALID).arg(rng.below(5)));
                    // often followed at once by the same kind of call done properly
                    if rng.chance(1, 2) {
                        t.ops.push(Op::new(h as u8, K_FINRESET).off(1));
                        fills[h] = Some(0);
                    }
                }
                K_RESET | K_FINRESET => {
                    t.ops.push(Op::new(h as u8, k).off(rng.below(2) as u8));
                    fills[h] = Some(0);
                }
                K_RESET_KEY | K_FINRESET_KEY => {
                    let kl = key_len(rng, var.max_key);
                    // a quarter of the re-keys use a key RELATED to the one in use (off >> 1, see related_key)
                    let rel = if rng.chance(1, 4) { 4 + rng.below(4) } else { 0 };
                    t.ops.push(Op::new(h as u8, k).arg(kl as u64).seed(rng.data_seed()).off((rng.below(2) | (rel << 1)) as u8));
                    fills[h] = Some(if kl > 0 { b } else { 0 });
                }
                _ => {
                    t.ops.push(Op::new(h as u8, K_FINALIZE).off(rng.below(2) as u8));
                    fills[h] = None;
                }
            }
        }
        t
    }

    /// Stratified prefix: every sequence of <= 3 operations over a boundary alphabet, per variant.
    fn gen_stratified(&self, idx: u64) -> Trace {
        let nv = VARIANTS.len() as u64;
        let var = VARIANTS[(idx % nv) as usize];
        let mut code = idx / nv; // 0..1111
        let b = var.block;
        let mut t = Trace::new("hashctx", var.name);
        if var.dynamic {
            t.set_p("outlen", var.max_key as u64);
        }
        t.set_p("key_len", 0);
        t.set_p("key_seed", 77);
        let alpha: [(u8, usize); 10] = [
            (K_UPDATE_MUT, 0),
            (K_UPDATE_MUT, 1),
            (K_UPDATE_MUT, b - 1),
            (K_UPDATE, b),
            (K_UPDATE_MUT, b + 1),
            (K_UPDATE, 2 * b),
            (K_FORK, 0),
            (K_RESET, 0),
            (K_FINRESET, 0),
            (K_UPDATE_MUT, 2 * b + 1),
        ];
        let len = if code == 0 {
            0
        } else if code <= 10 {
            code -= 1;
            1
        } else if code <= 110 {
            code -= 11;
            2
        } else {
            code -= 111;
            3
        };
        let mut handles = 1u8;
        for i in 0..len {
            let a = alpha[(code % 10) as usize];
            code /= 10;
            // alternate the acting handle once a fork exists
            let h = if handles > 1 && i % 2 == 1 { 1 } else { 0 };
            t.ops.push(Op::new(h, a.0).len(a.1).seed(100 + i as u64));
            if a.0 == K_FORK {
                handles += 1;
            }
        }
        t
    }
}

/// key of a re-keying op: independent bytes, or (off >> 1 in 4..8) a key related to the one in use - the same bytes
/// zero-extended or cut to the new length, all zeros of the new length, exactly the same key, the same key with its last
/// bit flipped. Two keys that agree as zero-padded blocks but differ in length are different keys.
pub fn related_key(prev: &[u8], op: &Op, max_key: usize) -> Vec<u8> {
    let kl = (op.arg as usize).min(max_key);
    match (op.off >> 1) % 8 {
        4 => {
            let mut k = prev.to_vec();
            k.resize(kl, 0);
            k
        }
        5 => vec![0u8; kl],
        6 => prev.to_vec(),
        7 => {
            let mut k = prev.to_vec();
            if let Some(l) = k.last_mut() {
                *l ^= 1;
            }
            k
        }
        _ => crate::rng::data(op.seed, kl),
    }
}

pub fn fill_class(fill: usize, b: usize) -> u32 {
    let m = fill % b;
    if fill == 0 {
        0
    } else if m == 0 {
        1 // full block(s), boundary
    } else if m == 1 {
        2
    } else if m == b - 1 {
        3
    } else {
        4
    }
}

pub fn chunk_class(len: usize, fill: usize, b: usize) -> u32 {
    let rem = b - (fill % b);
    if len == 0 {
        0
    } else if len < rem {
        1
    } else if len == rem {
        2
    } else if len < rem + b {
        3
    } else if (len - rem) % b == 0 {
        4
    } else {
        5
    }
}

impl Scenario for HashCtx {
    fn name(&self) -> &'static str {
        "hashctx"
    }
    fn kinds(&self) -> &'static [&'static str] {
        KINDS
    }
    fn nontrivial_kind(&self, k: u8) -> bool {
        k >= K_FORK
    }
    fn stratified(&self) -> u64 {
        VARIANTS.len() as u64 * 1111
    }
    fn generate(&self, rng: &mut Rng, idx: u64, tier: Tier) -> Trace {
        if idx < self.stratified() {
            self.gen_stratified(idx)
        } else {
            self.gen_random(rng, tier)
        }
    }
    fn real_vs_stub(&self) -> &'static str {
        "real: every cryptoxide::hashing::* Context (update, update_mut, clone, reset, reset_with_key, finalize, finalize_at, finalize_reset*, one-call functions); stub: scheduler/PRNG and the byte-log model (harness side)"
    }
    fn cover_rule(&self) -> &'static str {
        "(variant, op kind, buffer-fill class before the op {empty, on boundary, 1, block-1, other}, chunk class relative to the space left {0, <rem, =rem, <rem+B, whole blocks, blocks+tail})"
    }

    fn execute(&self, t: &Trace, obs: &mut Obs) -> Result<(), Violation> {
        let (vi, var) = match variant(&t.variant) {
            Some(x) => x,
            None => return Ok(()),
        };
        let b = var.block;
        let outlen = if var.dynamic { (t.p("outlen") as usize).clamp(1, var.max_key) } else { 0 };
        let klen0 = (t.p("key_len") as usize).min(var.max_key);
        let key0 = crate::rng::data(t.p("key_seed"), klen0);
        let name = var.name;
        let first = guarded(|| make_via(name, outlen, &key0, t.p("key_seed") & 2 != 0)).map_err(|m| Violation::new("unexpected-panic", 0, "object constructed", m, "new / new_keyed"))?;
        let mut hs: Vec<Option<Handle>> = vec![Some(Handle { obj: first, key: key0, log: Vec::new(), refused: false, late_key: false })];

        for (i, op) in t.ops.iter().enumerate() {
            let h = op.h as usize;
            if h >= hs.len() || hs[h].is_none() {
                continue; // stale handle after shrinking: no-op
            }
            obs.begin_op(i);
            match op.k {
                K_UPDATE | K_UPDATE_MUT => {
                    let hd = hs[h].as_mut().unwrap();
                    let len = op.len as usize;
                    let a = Aligned::new(op.seed, len, (op.off % 32) as usize);
                    let fill = (if hd.key.is_empty() { 0 } else { b }) + hd.log.len();
                    obs.cov(((vi as u32) << 16) | ((op.k as u32) << 8) | (fill_class(fill, b) << 4) | chunk_class(len, fill, b));
                    if len > 0 && len == b - fill % b && fill % b != 0 {
                        obs.hit("probe.chunk_completed_partial_buffer_exactly");
                    }
                    if len >= 2 * b && fill % b != 0 {
                        obs.hit("probe.whole_blocks_from_caller_slice_after_partial_buffer");
                    }
                    if op.off % 32 != 0 {
                        obs.hit("fault.misaligned_input");
                    }
                    if len == 0 {
                        obs.hit("fault.empty_fragment");
                    }
                    let r = if op.k == K_UPDATE { guarded(|| hd.obj.update_val(a.get())) } else { guarded(|| hd.obj.update_mut(a.get())) };
                    if let Err(m) = r {
                        if hd.refused {
                            obs.hit("observed.loud_failure_after_an_earlier_refusal");
                            hs[h] = None;
                            continue;
                        }
                        return Err(Violation::new("unexpected-panic", i, "update accepted", m, format!("{} update len {}", name, len)));
                    }
                    hd.log.extend_from_slice(a.get());
                    obs.pos(hd.log.len() as u64);
                }
                K_FORK => {
                    if hs.len() >= 8 {
                        continue;
                    }
                    obs.hit("fault.fork_midstream");
                    let hd = hs[h].as_ref().unwrap();
                    let o2 = if op.arg == 0 {
                        guarded(|| hd.obj.fork()).map_err(|m| Violation::new("unexpected-panic", i, "clone", m, name))?
                    } else {
                        obs.hit("fault.fork_by_clone_from_into_a_used_context");
                        let junk = crate::rng::data(op.seed | 16, ((op.arg - 1) as usize).min(4 * b));
                        guarded(|| hd.obj.fork_into(&junk, op.off & 1 == 1)).map_err(|m| Violation::new("unexpected-panic", i, "clone_from", m, name))?
                    };
                    let nh = Handle { obj: o2, key: hd.key.clone(), log: hd.log.clone(), refused: hd.refused, late_key: hd.late_key };
                    hs.push(Some(nh));
                }
                K_RESET => {
                    obs.hit("fault.reset");
                    let hd = hs[h].as_mut().unwrap();
                    if !hd.log.is_empty() && hd.log.len() % b != 0 {
                        obs.hit("probe.reset_with_bytes_buffered");
                    }
                    if let Err(m) = guarded(|| hd.obj.reset()) {
                        if hd.refused {
                            obs.hit("observed.loud_failure_after_an_earlier_refusal");
                            hs[h] = None;
                            continue;
                        }
                        return Err(Violation::new("unexpected-panic", i, "reset", m, name));
                    }
                    hd.log.clear();
                    hd.key.clear();
                }
                K_RESET_KEY => {
                    if var.max_key == 0 {
                        continue;
                    }
                    obs.hit("fault.reset_with_key");
                    let hd = hs[h].as_mut().unwrap();
                    let key = related_key(&hd.key, op, var.max_key);
                    if key.len() != hd.key.len() && (key.iter().all(|x| *x == 0) && hd.key.iter().all(|x| *x == 0) || key.starts_with(&hd.key) || hd.key.starts_with(&key)) {
                        obs.hit("probe.rekey_with_a_key_that_differs_only_in_length_or_trailing_bytes");
                    }
                    if let Err(m) = guarded(|| hd.obj.reset_with_key(&key)) {
                        if hd.refused {
                            obs.hit("observed.loud_failure_after_an_earlier_refusal");
                            hs[h] = None;
                            continue;
                        }
                        return Err(Violation::new("unexpected-panic", i, "reset_with_key", m, name));
                    }
                    hd.log.clear();
                    hd.key = key;
                }
                K_FINRESET | K_FINRESET_KEY => {
                    if op.k == K_FINRESET_KEY && var.max_key == 0 {
                        continue;
                    }
                    obs.hit(if op.k == K_FINRESET { "fault.finalize_reset" } else { "fault.finalize_reset_with_key" });
                    let hd = hs[h].as_mut().unwrap();
                    let total = (if hd.key.is_empty() { 0 } else { b }) + hd.log.len();
                    if var.max_key > 0 && total > 0 && total % b == 0 {
                        obs.hit("probe.blake2_buffer_full_at_finalisation");
                    }
                    let alt = op.off & 1 == 1;
                    let newkey = if op.k == K_FINRESET_KEY { related_key(&hd.key, op, var.max_key) } else { Vec::new() };
                    let got = if op.k == K_FINRESET { guarded(|| hd.obj.finalize_reset(alt)) } else { guarded(|| hd.obj.finalize_reset_with_key(&newkey, alt)) };
                    let got = match got {
                        Ok(g) => g,
                        Err(m) => {
                            if hd.refused {
                                obs.hit("observed.loud_failure_after_an_earlier_refusal");
                                hs[h] = None;
                                continue;
                            }
                            return Err(Violation::new("unexpected-panic", i, "finalize_reset", m, name));
                        }
                    };
                    obs.out(&got);
                    let want = oneshot(name, outlen, &hd.key, &hd.log);
                    if got != want {
                        let after = if hd.late_key { " [after an earlier call on this object was refused loudly] symptom=blake2-finalised-before-refusing-overlong-key" } else if hd.refused { " [after an earlier call on this object was refused loudly]" } else { "" };
                        return Err(Violation::bytes("digest-mismatch", i, &want, &got, format!("{} finalize_reset of {} bytes (key {} bytes) vs one-call digest{}", name, hd.log.len(), hd.key.len(), after)));
                    }
                    hd.log.clear();
                    hd.key = newkey;
                }
                K_INVALID => {
                    if var.max_key == 0 {
                        continue;
                    }
                    let hd = hs[h].as_mut().unwrap();
                    obs.hit("fault.call_refused_then_history_continued");
                    match guarded(|| hd.obj.invalid_call(op.arg, var.max_key)) {
                        Err(_) => {
                            hd.refused = true;
                            if op.arg % 5 == 3 {
                                hd.late_key = true;
                            }
                        }
                        Ok(()) => {
                            return Err(Violation::new("missing-refusal", i, "loud failure (panic)", "returned normally", format!("{}: invalid call class {} (wrong output buffer size / over-long key) was accepted", name, op.arg % 5)));
                        }
                    }
                }
                K_FINALIZE => {
                    let hd = hs[h].take().unwrap();
                    let total = (if hd.key.is_empty() { 0 } else { b }) + hd.log.len();
                    if var.max_key > 0 && total > 0 && total % b == 0 {
                        obs.hit("probe.blake2_buffer_full_at_finalisation");
                    }
                    let alt = op.off & 1 == 1;
                    let Handle { obj, key, log, refused, late_key } = hd;
                    let got = match guarded(move || obj.finalize(alt)) {
                        Ok(g) => g,
                        Err(_) if refused => {
                            obs.hit("observed.loud_failure_after_an_earlier_refusal");
                            continue;
                        }
                        Err(m) => return Err(Violation::new("unexpected-panic", i, "finalize", m, name)),
                    };
                    obs.out(&got);
                    let want = oneshot(name, outlen, &key, &log);
                    if got != want {
                        let after = if late_key { " [after an earlier call on this object was refused loudly] symptom=blake2-finalised-before-refusing-overlong-key" } else if refused { " [after an earlier call on this object was refused loudly]" } else { "" };
                        return Err(Violation::bytes("digest-mismatch", i, &want, &got, format!("{} finalize of {} bytes (key {} bytes) vs one-call digest{}", name, log.len(), key.len(), after)));
                    }
                }
                _ => {}
            }
        }
        // end-of-run check over the recorded history: every still-live handle must agree
        let n = t.ops.len();
        for (hi, slot) in hs.into_iter().enumerate() {
            if let Some(hd) = slot {
                let Handle { obj, key, log, refused, late_key } = hd;
                let got = match guarded(move || obj.finalize(true)) {
                    Ok(g) => g,
                    Err(_) if refused => continue,
                    Err(m) => return Err(Violation::new("unexpected-panic", n, "finalize", m, name)),
                };
                obs.out(&got);
                let want = oneshot(name, outlen, &key, &log);
                if got != want {
                    let after = if late_key { " [after an earlier call on this object was refused loudly] symptom=blake2-finalised-before-refusing-overlong-key" } else if refused { " [after an earlier call on this object was refused loudly]" } else { "" };
                    return Err(Violation::bytes("digest-mismatch", n, &want, &got, format!("{} end-of-run finalize of handle {} ({} bytes, key {} bytes) vs one-call digest{}", name, hi, log.len(), key.len(), after)));
                }
            }
        }
        Ok(())
    }

    fn classify(&self, _t: &Trace, v: &Violation) -> Option<&'static str> {
        if v.detail.ends_with("symptom=blake2-finalised-before-refusing-overlong-key") {
            return Some("blake2.finalize_reset_with_key.finalises_before_refusing_overlong_key");
        }
        None
    }
}
