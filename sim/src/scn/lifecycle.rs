//! C09 — MAC and legacy digest objects: reset re-keys, results never silently change.
//!
//! Three-state lifecycle model per handle:
//!   Absorbing(log) --input--> Absorbing(log||c)        must succeed
//!   Absorbing(log) --result-> Done(r)                  r == F(key, log)
//!   Done(r)        --result-> Done(r)                  same bytes OR loud failure
//!   Done(r)        --input--> retired                  must fail loudly
//!   any            --reset--> Absorbing(empty)         same key, same parameters
//!   any            --reset_with_key(k)-->              key = k
//! F(key, log) = a fresh object of the same type and key fed `log` in one call; for the legacy
//! digest objects additionally the one-call hashing::* function.
//! Faults: reset at an arbitrary instant ("crash/restart": only the key may survive), repeated
//! result (duplication), input after result (misuse), result into a buffer of the wrong size (misuse), re-key with
//! a key longer than the algorithm allows (misuse, legacy BLAKE2), fork.
//!
//! After a call that was REFUSED loudly (a caught panic) the history goes on with the same object. The model is
//! unchanged by a refused call. From then on a call may fail loudly (the object may consider itself poisoned - the
//! handle is then retired, no violation), but a call that RETURNS must return what the model says: a refused call
//! must never turn into a silently wrong MAC or digest later ("no history makes an object return a value that is not
//! the MAC or digest of the bytes fed since the last reset").

use crate::guard::guarded;
use crate::rng::{data, Aligned, Rng};
use crate::scn::hashctx;
use crate::scn::macs::*;
use crate::trace::{Obs, Op, Scenario, Tier, Trace, Violation};

pub const K_INPUT: u8 = 0;
pub const K_RESULT: u8 = 1; // off&1: raw_result into a dirty buffer
pub const K_RESET: u8 = 2;
pub const K_RESET_KEY: u8 = 3; // arg = key len, seed = key seed (legacy BLAKE2 only)
pub const K_FORK: u8 = 4;
pub const K_RESET_PLAIN: u8 = 5; // Digest::reset / inherent reset of a legacy BLAKE2 MAC: documented as "state after new" (unkeyed)
pub const K_RESULT_WRONG: u8 = 6; // raw_result / Digest::result into a buffer of the wrong size (arg selects the size): must be refused
pub const K_RESET_KEY_LONG: u8 = 7; // reset_with_key with a key longer than the algorithm allows (legacy BLAKE2 only): refused, nothing may change
const KINDS: &[&str] = &["input", "result", "reset", "reset_with_key", "fork", "reset_to_unkeyed", "result_into_wrong_size_buffer", "reset_with_overlong_key"];

pub struct Lifecycle;

#[derive(Clone, Copy, PartialEq, Eq)]
pub enum Class {
    Poly,
    Hmac,
    BlakeMac(bool),
    Digest,
}

pub struct LVariant {
    pub name: String,
    pub class: Class,
    pub digest: &'static str,
    /// internal block size the chunk menu is built around
    pub block: usize,
    pub max_out: usize,
    pub max_key: usize,
}

pub fn variants() -> Vec<LVariant> {
    let mut v = vec![LVariant { name: "poly1305".into(), class: Class::Poly, digest: "", block: 16, max_out: 0, max_key: 32 }];
    for d in DIGESTS {
        v.push(LVariant { name: format!("hmac_{}", d.name), class: Class::Hmac, digest: d.name, block: d.spec_block, max_out: d.max_out, max_key: 0 });
    }
    v.push(LVariant { name: "blake2b_mac".into(), class: Class::BlakeMac(false), digest: "blake2b", block: 128, max_out: 64, max_key: 64 });
    v.push(LVariant { name: "blake2s_mac".into(), class: Class::BlakeMac(true), digest: "blake2s", block: 64, max_out: 32, max_key: 32 });
    for d in DIGESTS {
        v.push(LVariant { name: format!("digest_{}", d.name), class: Class::Digest, digest: d.name, block: d.spec_block, max_out: d.max_out, max_key: 0 });
    }
    v
}

fn fresh(v: &LVariant, outlen: usize, key: &[u8]) -> Box<dyn LifeObj> {
    match v.class {
        Class::Poly => make_poly(key),
        Class::Hmac => make_hmac(v.digest, outlen, key),
        Class::BlakeMac(s) => make_blake_mac(s, outlen, key),
        Class::Digest => make_digest(v.digest, outlen),
    }
}

/// F(key, log): fresh object, one input call, one result
fn reference(v: &LVariant, outlen: usize, key: &[u8], log: &[u8]) -> Result<Vec<u8>, String> {
    guarded(|| {
        let mut o = fresh(v, outlen, key);
        o.input(log);
        o.result(false)
    })
}

struct Handle {
    obj: Box<dyn LifeObj>,
    key: Vec<u8>,
    log: Vec<u8>,
    done: Option<Vec<u8>>,
    resets: u32,
    /// a call on this object was refused loudly earlier: later calls may fail loudly too, but must not return wrong values
    refused: bool,
}

/// buffer sizes that are invalid for the object's result call
fn wrong_size(v: &LVariant, n: usize, sel: u64) -> usize {
    match v.class {
        // Poly1305::raw_result documents "at least 16 bytes": only too-small buffers are invalid
        Class::Poly => [0usize, 15, 1, 8][(sel % 4) as usize],
        _ => {
            let c = [0usize, n.saturating_sub(1), n + 1, 2 * n, n + 16, 1][(sel % 6) as usize];
            if c == n { n + 1 } else { c }
        }
    }
}

fn key_for(v: &LVariant, rng: &mut Rng) -> usize {
    match v.class {
        Class::Poly => 32,
        Class::Digest => 0,
        Class::BlakeMac(_) => match rng.below(6) { 0 => 0, 1 => 1, 2 => v.max_key, _ => rng.range(1, v.max_key as u64) as usize },
        Class::Hmac => match rng.below(7) { 0 => 0, 1 => 1, 2 => v.block - 1, 3 => v.block, 4 => v.block + 1, 5 => 2 * v.block + 1, _ => rng.below(3 * v.block as u64) as usize },
    }
}

impl Scenario for Lifecycle {
    fn name(&self) -> &'static str {
        "lifecycle"
    }
    fn kinds(&self) -> &'static [&'static str] {
        KINDS
    }
    fn nontrivial_kind(&self, k: u8) -> bool {
        k != K_INPUT
    }
    fn real_vs_stub(&self) -> &'static str {
        "real: Hmac<D> over all 18 legacy digests, Poly1305, legacy blake2b::Blake2b / blake2s::Blake2s through Mac (keyed and unkeyed), all legacy Digest wrappers (input, result, raw_result, reset, reset_with_key, clone), hashing::* one-call functions; stub: scheduler/PRNG, three-state lifecycle model (harness side)"
    }
    fn cover_rule(&self) -> &'static str {
        "(variant, lifecycle state before the op {absorbing-empty, absorbing-on-block-boundary, absorbing-mid-block, done}, op kind, was reset before?)"
    }
    fn generate(&self, rng: &mut Rng, _idx: u64, tier: Tier) -> Trace {
        let vs = variants();
        // MAC objects get half of the runs, the 18 digest wrappers share the rest
        let v = if rng.chance(1, 4) { &vs[0] } else { rng.pick(&vs) };
        let mut t = Trace::new("lifecycle", &v.name);
        let b = v.block;
        if v.max_out > 0 {
            t.set_p("outlen", rng.range(1, v.max_out as u64));
        }
        t.set_p("key_len", key_for(v, rng) as u64);
        t.set_p("key_seed", rng.data_seed());
        // degenerate keys now and then: all zero (Poly1305: r = 0 and s = 0, the accumulator and the tag stay zero), first
        // half zero (r = 0), second half zero (s = 0: the tag of the empty message is zero), all ones
        t.set_p("key_class", if rng.chance(1, 6) { rng.range(1, 4) } else { 0 });
        let misuse = rng.chance(1, 2); // fault-free and fault-injecting configurations are separate
        let max_handles = rng.range(1, 3) as usize;
        let nops = if rng.chance(1, 300) { rng.range(300, 700) } else { rng.range(2, if tier == Tier::Thorough { 40 } else { 20 }) };
        let mut w = [12u32, 4, 0, 0, 0, 0, 0, 0];
        if misuse && rng.chance(1, 2) {
            w[K_RESULT_WRONG as usize] = 1;
        }
        if misuse && matches!(v.class, Class::BlakeMac(_)) && rng.chance(1, 2) {
            w[K_RESET_KEY_LONG as usize] = 2;
        }
        if rng.chance(3, 4) {
            w[K_RESET as usize] = 3;
        }
        if matches!(v.class, Class::BlakeMac(_)) && rng.chance(1, 2) {
            w[K_RESET_KEY as usize] = 2;
        }
        if matches!(v.class, Class::BlakeMac(_)) && rng.chance(1, 3) {
            w[K_RESET_PLAIN as usize] = 2;
        }
        if rng.chance(1, 2) {
            w[K_FORK as usize] = 2;
        }
        let aligned_bias = rng.chance(1, 3); // the property singles out block-aligned messages
        // generator-side shadow: (log len, done)
        let mut sh: Vec<(usize, bool)> = vec![(0, false)];
        for _ in 0..nops {
            let h = rng.below(sh.len() as u64) as usize;
            let (fill, done) = sh[h];
            let mut k = rng.weighted(&w) as u8;
            if k == K_FORK && sh.len() >= max_handles {
                k = K_INPUT;
            }
            if done && !misuse && (k == K_INPUT || k == K_RESULT) {
                // fault-free configuration: follow the protocol
                k = K_RESET;
            }
            match k {
                K_INPUT => {
                    let len = if aligned_bias { b * rng.range(0, 3) as usize } else if rng.chance(1, 500) { hashctx::big_len(rng, false) } else { hashctx::chunk_len(rng, b, fill, false).min(4096) };
                    let dseed = match rng.below(16) { 0 => 0, 1 => 1, _ => rng.data_seed() };
                    t.ops.push(Op::new(h as u8, K_INPUT).len(len).seed(dseed).off(rng.below(32) as u8));
                    sh[h].0 = fill + len;
                }
                K_RESULT => {
                    t.ops.push(Op::new(h as u8, K_RESULT).off(rng.below(2) as u8));
                    sh[h].1 = true;
                    if misuse && rng.chance(1, 3) {
                        // duplication fault right after the first result
                        t.ops.push(Op::new(h as u8, K_RESULT).off(rng.below(2) as u8));
                    }
                }
                K_RESET => {
                    t.ops.push(Op::new(h as u8, K_RESET));
                    sh[h] = (0, false);
                }
                K_RESET_PLAIN => {
                    t.ops.push(Op::new(h as u8, K_RESET_PLAIN));
                    sh[h] = (0, false);
                }
                K_RESULT_WRONG => {
                    t.ops.push(Op::new(h as u8, K_RESULT_WRONG).arg(rng.below(12)));
                    // usually followed at once by the call done properly: the refused call must not have damaged anything
                    if rng.chance(2, 3) {
                        t.ops.push(Op::new(h as u8, K_RESULT).off(rng.below(2) as u8));
                        sh[h].1 = true;
                    }
                }
                K_RESET_KEY_LONG => {
                    t.ops.push(Op::new(h as u8, K_RESET_KEY_LONG).arg(rng.below(8)).seed(rng.data_seed()));
                    // what follows a refused re-key is what matters: the trait-level reset (re-keys from the stored
                    // key), more input, or the result
                    match rng.below(4) {
                        0 => {
                            t.ops.push(Op::new(h as u8, K_RESET));
                            sh[h] = (0, false);
                        }
                        1 => {
                            t.ops.push(Op::new(h as u8, K_INPUT).len(rng.range(0, 2 * b as u64) as usize).seed(rng.data_seed()));
                        }
                        _ => {}
                    }
                }
                K_RESET_KEY => {
                    let kl = match rng.below(4) { 0 => 0, 1 => v.max_key, _ => rng.range(1, v.max_key as u64) as usize };
                    // a third of the re-keys use a key related to the one in use (same bytes zero-extended or cut, all
                    // zeros, the same key, last bit flipped), usually followed by the trait-level reset that re-keys from
                    // the stored copy
                    let rel = if rng.chance(1, 3) { 4 + rng.below(4) } else { 0 };
                    t.ops.push(Op::new(h as u8, K_RESET_KEY).arg(kl as u64).seed(rng.data_seed()).off((rel << 1) as u8));
                    if rel != 0 && rng.chance(1, 2) {
                        t.ops.push(Op::new(h as u8, K_INPUT).len(rng.range(1, 2 * b as u64) as usize).seed(rng.data_seed()));
                        t.ops.push(Op::new(h as u8, K_RESULT));
                        t.ops.push(Op::new(h as u8, K_RESET));
                    }
                    sh[h] = (0, false);
                }
                _ => {
                    t.ops.push(Op::new(h as u8, K_FORK));
                    let s = sh[h];
                    sh.push(s);
                }
            }
        }
        t
    }

    fn execute(&self, t: &Trace, obs: &mut Obs) -> Result<(), Violation> {
        let vs = variants();
        let (vi, v) = match vs.iter().enumerate().find(|(_, x)| x.name == t.variant) {
            Some(x) => x,
            None => return Ok(()),
        };
        let outlen = if v.max_out > 0 { (t.p("outlen") as usize).clamp(1, v.max_out) } else { 0 };
        let klen = match v.class {
            Class::Poly => 32,
            Class::Digest => 0,
            Class::BlakeMac(_) => (t.p("key_len") as usize).min(v.max_key),
            Class::Hmac => (t.p("key_len") as usize).min(1024),
        };
        let mut key0 = data(t.p("key_seed"), klen);
        match t.p("key_class") {
            1 => key0.iter_mut().for_each(|x| *x = 0),
            2 => key0.iter_mut().take(klen / 2).for_each(|x| *x = 0),
            3 => key0.iter_mut().skip(klen / 2).for_each(|x| *x = 0),
            4 => key0.iter_mut().for_each(|x| *x = 0xff),
            _ => {}
        }
        if t.p("key_class") != 0 && klen > 0 {
            obs.hit("fault.degenerate_key");
        }
        let name = v.name.as_str();
        let first = guarded(|| fresh(v, outlen, &key0)).map_err(|m| Violation::new("unexpected-panic", 0, "object constructed", m, name))?;
        let mut hs: Vec<Option<Handle>> = vec![Some(Handle { obj: first, key: key0, log: Vec::new(), done: None, resets: 0, refused: false })];
        let b = v.block;

        for (i, op) in t.ops.iter().enumerate() {
            let h = op.h as usize;
            if h >= hs.len() || hs[h].is_none() {
                continue;
            }
            obs.begin_op(i);
            {
                let hd = hs[h].as_ref().unwrap();
                let st = if hd.done.is_some() { 3 } else if hd.log.is_empty() { 0 } else if hd.log.len() % b == 0 { 1 } else { 2 };
                obs.cov(((vi as u32) << 8) | (st << 4) | ((op.k as u32) << 1) | (hd.resets > 0) as u32);
            }
            match op.k {
                K_INPUT => {
                    let hd = hs[h].as_mut().unwrap();
                    let len = (op.len as usize).min(300_000);
                    let a = Aligned::new(op.seed, len, (op.off % 32) as usize);
                    let r = guarded(|| hd.obj.input(a.get()));
                    if hd.done.is_some() {
                        obs.hit("fault.input_after_result");
                        match r {
                            Err(_) => {
                                obs.hit("observed.loud_failure");
                                hd.refused = true; // the history goes on; the model is unchanged by a refused call
                            }
                            Ok(()) => {
                                let sym = if v.class == Class::Poly && hd.log.len() % 16 == 0 { " symptom=poly1305-input-accepted-after-result-of-block-aligned-message" } else { "" };
                                return Err(Violation::new("missing-panic", i, "loud failure (panic)", "returned normally", format!("{}: input({} bytes) after result without reset was accepted (message so far {} bytes){}", name, len, hd.log.len(), sym)));
                            }
                        }
                    } else {
                        match r {
                            Ok(()) => {
                                hd.log.extend_from_slice(a.get());
                                obs.pos(hd.log.len() as u64);
                            }
                            Err(_) if hd.refused => {
                                // an object that refused a call earlier may consider itself poisoned: loud, not wrong
                                obs.hit("observed.loud_failure_after_an_earlier_refusal");
                                hs[h] = None;
                            }
                            Err(m) => return Err(Violation::new("unexpected-panic", i, "input accepted", m, name)),
                        }
                    }
                }
                K_RESULT => {
                    let hd = hs[h].as_mut().unwrap();
                    let raw = op.off & 1 == 1;
                    let r = guarded(|| hd.obj.result(raw));
                    match (&hd.done, r) {
                        (None, Err(_)) if hd.refused => {
                            obs.hit("observed.loud_failure_after_an_earlier_refusal");
                            hs[h] = None;
                        }
                        (None, Err(m)) => return Err(Violation::new("unexpected-panic", i, "result", m, name)),
                        (None, Ok(got)) => {
                            obs.out(&got);
                            if hd.log.len() % b == 0 && !hd.log.is_empty() {
                                obs.hit("probe.result_of_block_aligned_message");
                            }
                            let want = reference(v, outlen, &hd.key, &hd.log).map_err(|m| Violation::new("unexpected-panic", i, "fresh object", m, name))?;
                            if got != want {
                                let mut sym = "";
                                if let Class::BlakeMac(_) = v.class {
                                    if !hd.key.is_empty() && hd.resets > 0 {
                                        if let Ok(unk) = reference(v, outlen, &[], &hd.log) {
                                            if unk == got {
                                                sym = " symptom=blake2-mac-unkeyed-after-reset";
                                            }
                                        }
                                    }
                                }
                                let after = if hd.refused { " [after an earlier call on this object was refused loudly]" } else { "" };
                                return Err(Violation::bytes("tag-mismatch", i, &want, &got, format!("{}: result over {} bytes (key {} bytes, {} resets before) differs from a fresh object fed the same bytes in one call{}{}", name, hd.log.len(), hd.key.len(), hd.resets, after, sym)));
                            }
                            if let Class::BlakeMac(sflag) = v.class {
                                // the legacy static one-call function of the same algorithm
                                let (k, l) = (hd.key.clone(), hd.log.clone());
                                let one = guarded(move || blake_static_oneshot(sflag, outlen, &l, &k)).map_err(|m| Violation::new("unexpected-panic", i, "static one-call function", m, name))?;
                                if one != got {
                                    return Err(Violation::bytes("digest-mismatch", i, &got, &one, format!("{}: the static one-call function disagrees with the object over {} bytes (key {} bytes)", name, hd.log.len(), hd.key.len())));
                                }
                            }
                            if v.class == Class::Digest {
                                let info = digest_info(v.digest).unwrap();
                                let one = hashctx::oneshot(info.hashing, outlen, &[], &hd.log);
                                if one != got {
                                    return Err(Violation::bytes("digest-mismatch", i, &one, &got, format!("{}: legacy digest object disagrees with the one-call hashing function over {} bytes", name, hd.log.len())));
                                }
                            }
                            hd.done = Some(got);
                        }
                        (Some(_), Err(_)) => {
                            obs.hit("fault.result_twice");
                            obs.hit("observed.loud_failure");
                            hd.refused = true;
                        }
                        (Some(prev), Ok(got)) => {
                            obs.hit("fault.result_twice");
                            obs.out(&got);
                            if &got != prev {
                                let sym = if v.class == Class::Poly && hd.log.len() % 16 == 0 { " symptom=poly1305-second-result-after-block-aligned-message" } else { "" };
                                return Err(Violation::bytes("result-changed", i, prev, &got, format!("{}: second result without reset returned different bytes (message {} bytes){}", name, hd.log.len(), sym)));
                            }
                            obs.hit("observed.same_result_again");
                        }
                    }
                }
                K_RESULT_WRONG => {
                    let hd = hs[h].as_mut().unwrap();
                    let n = hd.obj.out_len();
                    let size = wrong_size(v, n, op.arg);
                    obs.hit("fault.result_into_wrong_size_buffer");
                    match guarded(|| hd.obj.result_into(size)) {
                        Err(_) => {
                            obs.hit("observed.loud_failure");
                            hd.refused = true;
                        }
                        Ok(got) => {
                            return Err(Violation::new("missing-panic", i, "loud failure (panic)", format!("returned {} bytes", got.len()), format!("{}: result into a {}-byte buffer (output size {}) was accepted (message so far {} bytes, result already taken: {})", name, size, n, hd.log.len(), hd.done.is_some())));
                        }
                    }
                }
                K_RESET => {
                    let hd = hs[h].as_mut().unwrap();
                    obs.hit("fault.reset");
                    if hd.done.is_none() && !hd.log.is_empty() {
                        obs.hit("probe.reset_with_inflight_bytes");
                    }
                    match guarded(|| hd.obj.reset()) {
                        Ok(()) => {}
                        Err(_) if hd.refused => {
                            obs.hit("observed.loud_failure_after_an_earlier_refusal");
                            hs[h] = None;
                            continue;
                        }
                        Err(m) => return Err(Violation::new("unexpected-panic", i, "reset", m, name)),
                    }
                    hd.log.clear();
                    hd.done = None;
                    hd.resets += 1;
                }
                K_RESET_KEY => {
                    if !matches!(v.class, Class::BlakeMac(_)) {
                        continue;
                    }
                    let hd = hs[h].as_mut().unwrap();
                    obs.hit("fault.reset_with_key");
                    let k = hashctx::related_key(&hd.key, op, v.max_key);
                    match guarded(|| hd.obj.reset_with_key(&k)) {
                        Ok(()) => {}
                        Err(_) if hd.refused => {
                            obs.hit("observed.loud_failure_after_an_earlier_refusal");
                            hs[h] = None;
                            continue;
                        }
                        Err(m) => return Err(Violation::new("unexpected-panic", i, "reset_with_key", m, name)),
                    }
                    hd.key = k;
                    hd.log.clear();
                    hd.done = None;
                    hd.resets = 0; // a re-key is a fresh keyed start
                }
                K_RESET_KEY_LONG => {
                    if !matches!(v.class, Class::BlakeMac(_)) {
                        continue;
                    }
                    let hd = hs[h].as_mut().unwrap();
                    obs.hit("fault.reset_with_overlong_key");
                    let kl = v.max_key + [1usize, 1, 2, 16, v.max_key, 191, 1000, 3][(op.arg % 8) as usize];
                    let k = data(op.seed, kl);
                    match guarded(|| hd.obj.reset_with_key(&k)) {
                        Err(_) => {
                            // refused: key, bytes fed and lifecycle state are what they were
                            obs.hit("observed.loud_failure");
                            hd.refused = true;
                        }
                        Ok(()) => {
                            // an accepted over-long key is a statement of C20 (scenario misuse), not of this model: there is
                            // no MAC to compare with, the handle leaves the run without a verdict
                            obs.hit("observed.overlong_key_accepted");
                            hs[h] = None;
                        }
                    }
                }
                K_RESET_PLAIN => {
                    if !matches!(v.class, Class::BlakeMac(_)) {
                        continue;
                    }
                    let hd = hs[h].as_mut().unwrap();
                    obs.hit("fault.reset_to_unkeyed");
                    match guarded(|| hd.obj.reset_plain()) {
                        Ok(()) => {}
                        Err(_) if hd.refused => {
                            obs.hit("observed.loud_failure_after_an_earlier_refusal");
                            hs[h] = None;
                            continue;
                        }
                        Err(m) => return Err(Violation::new("unexpected-panic", i, "reset", m, name)),
                    }
                    // documented: "Reset the context to the state after calling `new`" - an unkeyed object from here on
                    hd.key.clear();
                    hd.log.clear();
                    hd.done = None;
                    hd.resets = 0;
                }
                K_FORK => {
                    if hs.len() >= 6 {
                        continue;
                    }
                    let hd = hs[h].as_ref().unwrap();
                    if let Some(o2) = guarded(|| hd.obj.fork()).map_err(|m| Violation::new("unexpected-panic", i, "clone", m, name))? {
                        obs.hit("fault.fork_midstream");
                        let n = Handle { obj: o2, key: hd.key.clone(), log: hd.log.clone(), done: hd.done.clone(), resets: hd.resets, refused: hd.refused };
                        hs.push(Some(n));
                    }
                }
                _ => {}
            }
        }
        // end of run: every handle still absorbing must produce F(key, log)
        let n = t.ops.len();
        for slot in hs.iter_mut() {
            if let Some(hd) = slot {
                if hd.done.is_none() {
                    let got = match guarded(|| hd.obj.result(false)) {
                        Ok(g) => g,
                        Err(_) if hd.refused => continue,
                        Err(m) => return Err(Violation::new("unexpected-panic", n, "result", m, name)),
                    };
                    obs.out(&got);
                    let want = reference(v, outlen, &hd.key, &hd.log).map_err(|m| Violation::new("unexpected-panic", n, "fresh object", m, name))?;
                    if got != want {
                        let mut sym = "";
                        if let Class::BlakeMac(_) = v.class {
                            if !hd.key.is_empty() && hd.resets > 0 {
                                if let Ok(unk) = reference(v, outlen, &[], &hd.log) {
                                    if unk == got {
                                        sym = " symptom=blake2-mac-unkeyed-after-reset";
                                    }
                                }
                            }
                        }
                        return Err(Violation::bytes("tag-mismatch", n, &want, &got, format!("{}: end-of-run result over {} bytes (key {} bytes, {} resets before) differs from a fresh object fed the same bytes in one call{}", name, hd.log.len(), hd.key.len(), hd.resets, sym)));
                    }
                }
            }
        }
        Ok(())
    }

    fn classify(&self, _t: &Trace, v: &Violation) -> Option<&'static str> {
        if v.detail.ends_with("symptom=poly1305-second-result-after-block-aligned-message") {
            return Some("poly1305.second_result_after_block_aligned_message");
        }
        if v.detail.ends_with("symptom=poly1305-input-accepted-after-result-of-block-aligned-message") {
            return Some("poly1305.input_accepted_after_result_of_block_aligned_message");
        }
        if v.detail.ends_with("symptom=blake2-mac-unkeyed-after-reset") {
            return Some("blake2.mac_reset_forgets_key");
        }
        None
    }
}
