//! C20 scenarios.
//!
//! ctrwrap — clock-jump faults through hook H1: the BLAKE2 byte counter is preset next to
//!           2^32 (BLAKE2s) / 2^64 (BLAKE2b) and a fragmented history crosses the low-word
//!           boundary. Oracles: no panic; counter invariant through the getter after every
//!           operation; equal output for any fragmentation of the same bytes under the same
//!           preset; (driver) equal transcripts in every build profile.
//! misuse  — the catalogue of invalid calls, each injected at a random point of an otherwise
//!           valid history of the object concerned. Oracle: every catalogue call fails loudly
//!           (panic or Err); none returns a value.

use crate::guard::guarded;
use crate::rng::{data, Aligned, Rng};
use crate::scn::hashctx::chunk_len;
use crate::trace::{Obs, Op, Scenario, Tier, Trace, Violation};
use cryptoxide::hashing::{blake2b, blake2s};

// ------------------------------------------------------------------ ctrwrap

pub const W_UPDATE: u8 = 0;
pub const W_UPDATE_MUT: u8 = 1;
pub const W_FORK: u8 = 2;
pub const W_RESET: u8 = 3; // plain reset: a new unkeyed context, counter back to zero whatever it was
pub const W_FINRESET: u8 = 4; // finalize_reset_at: digest under the preset, then as W_RESET
const W_KINDS: &[&str] = &["update", "update_mut", "fork", "reset", "finalize_reset"];

pub struct CtrWrap;

trait CObj {
    fn update_val(&mut self, d: &[u8]);
    fn update_mut(&mut self, d: &[u8]);
    fn fork(&self) -> Box<dyn CObj>;
    fn counter(&self) -> u128;
    fn set_counter(&mut self, c: u128);
    fn finalize(self: Box<Self>) -> Vec<u8>;
    fn reset(&mut self);
    fn finalize_reset(&mut self) -> Vec<u8>;
}

macro_rules! cobj {
    ($w:ident, $ctx:ty, $fresh:expr, $word:ty, $bits:expr, $outlen:expr) => {
        struct $w($ctx, usize);
        impl CObj for $w {
            fn update_val(&mut self, d: &[u8]) {
                let old = core::mem::replace(&mut self.0, $fresh);
                self.0 = old.update(d);
            }
            fn update_mut(&mut self, d: &[u8]) {
                self.0.update_mut(d)
            }
            fn fork(&self) -> Box<dyn CObj> {
                Box::new($w(self.0.clone(), self.1))
            }
            fn counter(&self) -> u128 {
                #[cfg(not(feature = "hooks"))]
                let (a, b): ($word, $word) = unreachable!();
                #[cfg(feature = "hooks")]
                let (a, b) = self.0.verif_counter();
                (a as u128) | ((b as u128) << $bits)
            }
            fn set_counter(&mut self, c: u128) {
                #[cfg(feature = "hooks")]
                self.0.verif_set_counter(c as $word, (c >> $bits) as $word);
                #[cfg(not(feature = "hooks"))]
                let _ = c;
            }
            fn finalize(self: Box<Self>) -> Vec<u8> {
                let mut out = vec![0u8; self.1];
                self.0.finalize_at(&mut out);
                out
            }
            fn reset(&mut self) {
                self.0.reset()
            }
            fn finalize_reset(&mut self) -> Vec<u8> {
                let mut out = vec![0u8; self.1];
                self.0.finalize_reset_at(&mut out);
                out
            }
        }
    };
}
cobj!(C2b512, blake2b::Context<512>, blake2b::Context::<512>::new(), u64, 64, 64);
cobj!(C2bDyn, blake2b::ContextDyn, blake2b::ContextDyn::new(1), u64, 64, 0);
cobj!(C2s256, blake2s::Context<256>, blake2s::Context::<256>::new(), u32, 32, 32);
cobj!(C2sDyn, blake2s::ContextDyn, blake2s::ContextDyn::new(1), u32, 32, 0);

const W_VARIANTS: &[(&str, usize, usize, u32)] = &[("blake2b_512", 128, 64, 64), ("blake2b_dyn", 128, 64, 64), ("blake2s_256", 64, 32, 32), ("blake2s_dyn", 64, 32, 32)];

fn make_c(name: &str, outlen: usize, key: &[u8]) -> Box<dyn CObj> {
    match name {
        "blake2b_512" => Box::new(C2b512(if key.is_empty() { blake2b::Context::<512>::new() } else { blake2b::Context::<512>::new_keyed(key) }, 64)),
        "blake2b_dyn" => Box::new(C2bDyn(if key.is_empty() { blake2b::ContextDyn::new(outlen) } else { blake2b::ContextDyn::new_keyed(outlen, key) }, outlen)),
        "blake2s_256" => Box::new(C2s256(if key.is_empty() { blake2s::Context::<256>::new() } else { blake2s::Context::<256>::new_keyed(key) }, 32)),
        _ => Box::new(C2sDyn(if key.is_empty() { blake2s::ContextDyn::new(outlen) } else { blake2s::ContextDyn::new_keyed(outlen, key) }, outlen)),
    }
}

struct WHandle {
    obj: Box<dyn CObj>,
    log: Vec<u8>,
    /// counter preset in force (0 after a reset) and whether the key still applies (a plain reset drops it)
    preset: u128,
    keyed: bool,
}

impl Scenario for CtrWrap {
    fn name(&self) -> &'static str {
        "ctrwrap"
    }
    fn kinds(&self) -> &'static [&'static str] {
        W_KINDS
    }
    fn nontrivial_kind(&self, _k: u8) -> bool {
        true
    }
    fn nontrivial(&self, t: &Trace) -> bool {
        // the preset (clock jump) is part of every run; non-trivial = the history is fragmented
        t.ops.len() >= 2
    }
    fn real_vs_stub(&self) -> &'static str {
        "real: blake2b/blake2s Context<BITS> and ContextDyn (new, new_keyed, update, update_mut, clone, finalize_at) with the byte counter preset/observed through hook H1; stub: scheduler/PRNG, counter model"
    }
    fn cover_rule(&self) -> &'static str {
        "(variant, keyed?, distance of the preset low word from its wrap {>=2 blocks, 1..2 blocks, <1 block, exact}, high word class)"
    }
    fn generate(&self, rng: &mut Rng, _idx: u64, tier: Tier) -> Trace {
        let (name, b, maxk, bits) = *rng.pick(W_VARIANTS);
        let mut t = Trace::new("ctrwrap", name);
        t.set_p("outlen", rng.range(1, maxk as u64));
        t.set_p("key_len", if rng.chance(1, 2) { rng.range(1, maxk as u64) } else { 0 });
        t.set_p("key_seed", rng.data_seed());
        // preset: low word within a few blocks below its wrap, high word 0, 1, or max-1
        let below = match rng.below(6) {
            0 => 0u64,                              // low word = 0 after exactly wrapping? (2^w - 0 == 0): plain start
            1 => rng.range(1, b as u64),            // less than a block below
            2 => b as u64,                          // exactly one block below
            3 => rng.range(b as u64 + 1, 2 * b as u64),
            _ => rng.range(1, 4 * b as u64 + 1),
        };
        t.set_p("below_wrap", below);
        t.set_p("high", match rng.below(4) { 0 => 0, 1 => 1, 2 => 2, _ => 3 }); // 3 = max-1
        // a quarter of the runs approach the SIGN boundary of the low word (2^31 / 2^63) instead of its wrap
        t.set_p("half_word", rng.chance(1, 4) as u64);
        let _ = bits;
        let nops = rng.range(1, if tier == Tier::Thorough { 16 } else { 8 });
        let mut handles = 1u8;
        let mut fill = 0usize;
        for _ in 0..nops {
            if handles < 3 && rng.chance(1, 8) {
                t.ops.push(Op::new(rng.below(handles as u64) as u8, W_FORK));
                handles += 1;
                continue;
            }
            if rng.chance(1, 10) {
                // a reset or finalize-and-reset with the counter wherever the history left it (also exactly on the wrap)
                t.ops.push(Op::new(rng.below(handles as u64) as u8, if rng.chance(1, 2) { W_RESET } else { W_FINRESET }));
                fill = 0;
                continue;
            }
            let len = chunk_len(rng, b, fill, false).min(5 * b);
            let k = if rng.chance(1, 2) { W_UPDATE } else { W_UPDATE_MUT };
            t.ops.push(Op::new(rng.below(handles as u64) as u8, k).len(len).seed(rng.data_seed()).off(rng.below(32) as u8));
            fill += len;
        }
        t
    }

    fn execute(&self, t: &Trace, obs: &mut Obs) -> Result<(), Violation> {
        if !crate::scn::streams::HOOKS {
            obs.hit("skipped.hooks_unavailable");
            return Ok(());
        }
        let (vi, &(name, b, maxk, bits)) = match W_VARIANTS.iter().enumerate().find(|(_, v)| v.0 == t.variant) {
            Some(x) => x,
            None => return Ok(()),
        };
        let outlen = (t.p("outlen") as usize).clamp(1, maxk);
        let key = data(t.p("key_seed"), (t.p("key_len") as usize).min(maxk));
        let word_max: u128 = if bits == 32 { 0xffff_ffff } else { 0xffff_ffff_ffff_ffff };
        let below = (t.p("below_wrap") as u128).min(word_max);
        let high: u128 = match t.p("high") { 0 => 0, 1 => 1, 2 => 2, _ => word_max - 1 };
        // low word = 2^w - below (below = 0 means low word 0, nothing to cross)
        let low = if below == 0 { 0 } else if t.p("half_word") == 1 { (word_max + 1) / 2 - below } else { word_max + 1 - below };
        if below != 0 && t.p("half_word") == 1 {
            obs.hit("fault.counter_preset_below_the_sign_boundary_of_the_low_word");
        }
        let preset: u128 = (high << bits) | low;
        let total_mask: u128 = if bits == 32 { u64::MAX as u128 } else { u128::MAX };
        let dist = if below == 0 { 3 } else if below as usize >= 2 * b { 0 } else if below as usize > b { 1 } else if below as usize == b { 3 } else { 2 };
        obs.cov(((vi as u32) << 8) | ((!key.is_empty() as u32) << 6) | (dist << 3) | t.p("high").min(3) as u32);
        let mk = || -> Result<Box<dyn CObj>, String> {
            guarded(|| {
                let mut o = make_c(name, outlen, &key);
                o.set_counter(preset);
                o
            })
        };
        let first = mk().map_err(|m| Violation::new("unexpected-panic", 0, "context constructed", m, name))?;
        obs.hit("fault.counter_preset");
        let mut hs: Vec<WHandle> = vec![WHandle { obj: first, log: Vec::new(), preset, keyed: !key.is_empty() }];
        let expect_counter_of = |preset: u128, keyb: usize, loglen: usize| -> u128 {
            let total = keyb + loglen;
            let tail = if total == 0 { 0 } else { ((total - 1) % b) + 1 };
            (preset.wrapping_add((total - tail) as u128)) & total_mask
        };
        // digest of `log` through one update + finalize of a fresh context under the given preset / key
        let one_call = |p: u128, keyed: bool, log: &[u8]| -> Result<Vec<u8>, String> {
            guarded(|| {
                let mut o = make_c(name, outlen, if keyed { &key } else { &[] });
                if p != 0 {
                    o.set_counter(p);
                }
                o.update_mut(log);
                o.finalize()
            })
        };
        for (i, op) in t.ops.iter().enumerate() {
            let h = op.h as usize;
            if h >= hs.len() {
                continue;
            }
            obs.begin_op(i);
            match op.k {
                W_FORK => {
                    if hs.len() >= 4 {
                        continue;
                    }
                    let n = WHandle { obj: guarded(|| hs[h].obj.fork()).map_err(|m| Violation::new("unexpected-panic", i, "clone", m, name))?, log: hs[h].log.clone(), preset: hs[h].preset, keyed: hs[h].keyed };
                    hs.push(n);
                }
                W_RESET | W_FINRESET => {
                    let hd = &mut hs[h];
                    obs.hit(if op.k == W_RESET { "fault.reset_with_a_preset_counter" } else { "fault.finalize_reset_with_a_preset_counter" });
                    let keyb = if hd.keyed { b } else { 0 };
                    let at = hd.preset.wrapping_add((keyb + hd.log.len()) as u128) & total_mask;
                    if hd.preset != 0 && at & word_max == 0 {
                        obs.hit("probe.reset_with_the_low_counter_word_exactly_on_its_wrap");
                    }
                    if op.k == W_RESET {
                        guarded(|| hd.obj.reset()).map_err(|m| Violation::new("unexpected-panic", i, "reset", m, name))?;
                    } else {
                        let got = guarded(|| hd.obj.finalize_reset()).map_err(|m| Violation::new("unexpected-panic", i, "finalize_reset (total length inside the algorithm's domain)", m, name))?;
                        obs.out(&got);
                        let want = one_call(hd.preset, hd.keyed, &hd.log).map_err(|m| Violation::new("unexpected-panic", i, "one-call path", m, name))?;
                        if got != want {
                            return Err(Violation::bytes("digest-mismatch", i, &want, &got, format!("{}: finalize_reset of a fragmented history vs one call over the same {} bytes under the same counter preset {:#x}", name, hd.log.len(), hd.preset)));
                        }
                    }
                    // a reset context is a new unkeyed context: counter zero, key gone
                    hd.log.clear();
                    hd.preset = 0;
                    hd.keyed = false;
                    let got = hd.obj.counter();
                    if got != 0 {
                        return Err(Violation::new("counter-invariant", i, "0", format!("{:#x}", got), format!("{}: byte counter after {} of a context whose counter had been preset", name, W_KINDS[op.k as usize])));
                    }
                }
                W_UPDATE | W_UPDATE_MUT => {
                    let hd = &mut hs[h];
                    let len = (op.len as usize).min(8 * b);
                    let a = Aligned::new(op.seed, len, (op.off % 32) as usize);
                    let (preset, keyb) = (hd.preset, if hd.keyed { b } else { 0 });
                    let expect_counter = |l: usize| expect_counter_of(preset, keyb, l);
                    let before = expect_counter(hd.log.len());
                    let r = if op.k == W_UPDATE { guarded(|| hd.obj.update_val(a.get())) } else { guarded(|| hd.obj.update_mut(a.get())) };
                    hd.log.extend_from_slice(a.get());
                    let after = expect_counter(hd.log.len());
                    let low_mask = word_max;
                    let carried = (after & low_mask) < (before & low_mask) || (after >> bits) != (before >> bits);
                    if carried {
                        obs.hit("probe.counter_low_word_carried");
                    }
                    r.map_err(|m| Violation::new("unexpected-panic", i, "update accepted (total length inside the algorithm's domain)", m, format!("{} update of {} bytes with the byte counter at {:#x}{}", name, len, before, if carried { " symptom=panic-while-low-counter-word-wraps" } else { "" })))?;
                    let got = hd.obj.counter();
                    obs.pos((after & u64::MAX as u128) as u64);
                    // accepted accountings: bytes compressed so far (what the code does today) or bytes fed so far
                    // (counter advanced on input, buffered tail subtracted at compression time)
                    let fed = preset.wrapping_add((keyb + hd.log.len()) as u128) & total_mask;
                    if got != after && got != fed {
                        return Err(Violation::new("counter-invariant", i, format!("{:#x}", after), format!("{:#x}", got), format!("{}: byte counter after update (preset {:#x}, {} bytes fed, keyed={})", name, preset, hd.log.len(), hd.keyed)));
                    }
                }
                _ => {}
            }
        }
        // end of run: finalize every handle; any fragmentation of the same bytes under the same
        // preset must give the same digest as one call
        let n = t.ops.len();
        for hd in hs.into_iter() {
            let WHandle { obj, log, preset, keyed } = hd;
            let keyb = if keyed { b } else { 0 };
            let total = keyb + log.len();
            let final_ctr = preset.wrapping_add(total as u128) & total_mask;
            let carried = (final_ctr & word_max) < (expect_counter_of(preset, keyb, log.len()) & word_max);
            let got = guarded(move || obj.finalize()).map_err(|m| Violation::new("unexpected-panic", n, "finalize (total length inside the algorithm's domain)", m, format!("{} finalize with the byte counter near its word boundary{}", name, if carried { " symptom=panic-while-low-counter-word-wraps" } else { "" })))?;
            obs.out(&got);
            let want = one_call(preset, keyed, &log).map_err(|m| Violation::new("unexpected-panic", n, "one-call path (total length inside the algorithm's domain)", m, format!("{} one-call update+finalize with preset counter symptom=panic-while-low-counter-word-wraps", name)))?;
            if preset == 0 && !keyed {
                // after a reset the context must agree with the plain one-call function
                let plain = crate::scn::hashctx::oneshot(name, outlen, &[], &log);
                if plain != got {
                    return Err(Violation::bytes("digest-mismatch", n, &plain, &got, format!("{}: digest after a reset of a context with a preset counter differs from the one-call digest of the {} bytes fed since", name, log.len())));
                }
            }
            if got != want {
                return Err(Violation::bytes("digest-mismatch", n, &want, &got, format!("{}: fragmented history vs one call over the same {} bytes under the same counter preset {:#x}", name, log.len(), preset)));
            }
        }
        Ok(())
    }

    fn classify(&self, _t: &Trace, v: &Violation) -> Option<&'static str> {
        if v.kind == "unexpected-panic" && v.detail.ends_with("symptom=panic-while-low-counter-word-wraps") {
            return Some("blake2.increment_counter.overflow_check_panics_on_low_word_wrap");
        }
        None
    }
}

// ------------------------------------------------------------------ lenwrap

pub struct LenWrap;

trait LObj {
    fn update_val(&mut self, d: &[u8]);
    fn update_mut(&mut self, d: &[u8]);
    fn fork(&self) -> Box<dyn LObj>;
    fn len(&self) -> u128;
    fn set_len(&mut self, n: u128);
    fn finalize_reset(&mut self) -> Vec<u8>;
    fn finalize(self: Box<Self>) -> Vec<u8>;
}

macro_rules! lobj {
    ($w:ident, $ctx:ty) => {
        struct $w($ctx);
        impl LObj for $w {
            fn update_val(&mut self, d: &[u8]) {
                let old = core::mem::replace(&mut self.0, <$ctx>::new());
                self.0 = old.update(d);
            }
            fn update_mut(&mut self, d: &[u8]) {
                self.0.update_mut(d)
            }
            fn fork(&self) -> Box<dyn LObj> {
                Box::new($w(self.0.clone()))
            }
            fn len(&self) -> u128 {
                #[cfg(feature = "hooks")]
                return self.0.verif_processed_bytes();
                #[cfg(not(feature = "hooks"))]
                unreachable!()
            }
            fn set_len(&mut self, n: u128) {
                #[cfg(feature = "hooks")]
                self.0.verif_set_processed_bytes(n);
                #[cfg(not(feature = "hooks"))]
                let _ = n;
            }
            fn finalize_reset(&mut self) -> Vec<u8> {
                self.0.finalize_reset().to_vec()
            }
            fn finalize(self: Box<Self>) -> Vec<u8> {
                self.0.finalize().to_vec()
            }
        }
    };
}
lobj!(LSha1, cryptoxide::hashing::sha1::Context);
lobj!(LRipemd, cryptoxide::hashing::ripemd160::Context);
lobj!(LSha224, cryptoxide::hashing::sha2::Context224);
lobj!(LSha256, cryptoxide::hashing::sha2::Context256);
lobj!(LSha384, cryptoxide::hashing::sha2::Context384);
lobj!(LSha512, cryptoxide::hashing::sha2::Context512);
lobj!(LSha512_224, cryptoxide::hashing::sha2::Context512_224);
lobj!(LSha512_256, cryptoxide::hashing::sha2::Context512_256);

/// (name, block size, log2 of the domain limit in bytes)
const L_VARIANTS: &[(&str, usize, u32)] = &[("sha1", 64, 61), ("ripemd160", 64, 61), ("sha224", 64, 61), ("sha256", 64, 61), ("sha384", 128, 125), ("sha512", 128, 125), ("sha512_224", 128, 125), ("sha512_256", 128, 125)];

fn make_l(name: &str) -> Box<dyn LObj> {
    use cryptoxide::hashing::{ripemd160, sha1, sha2};
    match name {
        "sha1" => Box::new(LSha1(sha1::Context::new())),
        "ripemd160" => Box::new(LRipemd(ripemd160::Context::new())),
        "sha224" => Box::new(LSha224(sha2::Context224::new())),
        "sha256" => Box::new(LSha256(sha2::Context256::new())),
        "sha384" => Box::new(LSha384(sha2::Context384::new())),
        "sha512" => Box::new(LSha512(sha2::Context512::new())),
        "sha512_224" => Box::new(LSha512_224(sha2::Context512_224::new())),
        _ => Box::new(LSha512_256(sha2::Context512_256::new())),
    }
}

/// boundaries (log2, in bytes) the length counter and its bit-length encoding have to cross
const L_BOUNDS: [u32; 8] = [29, 32, 35, 53, 60, 61, 64, 93];

impl Scenario for LenWrap {
    fn name(&self) -> &'static str {
        "lenwrap"
    }
    fn kinds(&self) -> &'static [&'static str] {
        &["update", "update_mut", "fork", "finalize_reset"]
    }
    fn nontrivial_kind(&self, _k: u8) -> bool {
        true
    }
    fn nontrivial(&self, t: &Trace) -> bool {
        t.ops.len() >= 2
    }
    fn real_vs_stub(&self) -> &'static str {
        "real: SHA-1, RIPEMD-160 and the six SHA-2 contexts (update, update_mut, clone, finalize, finalize_reset) with the message-length counter preset/observed through hook H4; stub: scheduler/PRNG, length model"
    }
    fn cover_rule(&self) -> &'static str {
        "(variant, boundary 2^k bytes approached, blocks below it at the preset)"
    }
    fn generate(&self, rng: &mut Rng, _idx: u64, _tier: Tier) -> Trace {
        let (name, b, dom) = *rng.pick(L_VARIANTS);
        let mut t = Trace::new("lenwrap", name);
        // a boundary inside the algorithm's domain, approached from k blocks below
        let k = loop {
            let k = *rng.pick(&L_BOUNDS);
            if k <= dom {
                break k;
            }
        };
        t.set_p("boundary_log2", k as u64);
        t.set_p("blocks_below", rng.range(0, 4));
        let nops = rng.range(1, 8);
        let mut handles = 1u8;
        let mut fill = 0usize;
        for _ in 0..nops {
            let r = rng.below(12);
            if r == 0 && handles < 3 {
                t.ops.push(Op::new(rng.below(handles as u64) as u8, 2));
                handles += 1;
            } else if r == 1 {
                t.ops.push(Op::new(rng.below(handles as u64) as u8, 3));
            } else {
                let len = chunk_len(rng, b, fill, false).min(3 * b);
                t.ops.push(Op::new(rng.below(handles as u64) as u8, rng.below(2) as u8).len(len).seed(rng.data_seed()).off(rng.below(32) as u8));
                fill += len;
            }
        }
        t
    }
    fn execute(&self, t: &Trace, obs: &mut Obs) -> Result<(), Violation> {
        if !crate::scn::streams::HOOKS {
            obs.hit("skipped.hooks_unavailable");
            return Ok(());
        }
        let (vi, &(name, b, dom)) = match L_VARIANTS.iter().enumerate().find(|(_, v)| v.0 == t.variant) {
            Some(x) => x,
            None => return Ok(()),
        };
        let k = (t.p("boundary_log2") as u32).min(dom);
        let below = t.p("blocks_below").min(8) as u128;
        // the whole history (<= 8 ops of <= 3 blocks, 3 handles) stays below the domain limit
        let total_cap: u128 = 40 * b as u128;
        let mut preset: u128 = (1u128 << k) - below * b as u128;
        if k == dom {
            preset = (1u128 << k) - total_cap - below * b as u128;
            preset -= preset % b as u128;
        }
        obs.cov(((vi as u32) << 12) | (k << 4) | below as u32);
        let first = guarded(|| {
            let mut o = make_l(name);
            o.set_len(preset);
            o
        })
        .map_err(|m| Violation::new("unexpected-panic", 0, "context constructed", m, name))?;
        obs.hit("fault.length_counter_preset");
        // (object, bytes fed since the preset / last reset, preset in force)
        let mut hs: Vec<(Box<dyn LObj>, Vec<u8>, u128)> = vec![(first, Vec::new(), preset)];
        for (i, op) in t.ops.iter().enumerate() {
            let h = op.h as usize;
            if h >= hs.len() {
                continue;
            }
            obs.begin_op(i);
            match op.k {
                0 | 1 => {
                    let len = (op.len as usize).min(4 * b);
                    let a = Aligned::new(op.seed, len, (op.off % 32) as usize);
                    let hd = &mut hs[h];
                    let before = hd.2 + hd.1.len() as u128;
                    let after = before + len as u128;
                    if (before >> k) != (after >> k) || (before * 8) >> 32 != (after * 8) >> 32 {
                        obs.hit("probe.length_counter_crossed_a_word_boundary");
                    }
                    let r = if op.k == 0 { guarded(|| hd.0.update_val(a.get())) } else { guarded(|| hd.0.update_mut(a.get())) };
                    r.map_err(|m| Violation::new("unexpected-panic", i, "update accepted (total length inside the algorithm's domain)", m, format!("{} update of {} bytes with {} bytes already counted", name, len, before)))?;
                    hd.1.extend_from_slice(a.get());
                    let mask: u128 = if dom == 61 { u64::MAX as u128 } else { u128::MAX };
                    let got = hd.0.len();
                    obs.pos((after & u64::MAX as u128) as u64);
                    // accepted accountings: bytes fed (what the code does today), or bytes compressed so far
                    // (partial / last full block counted at finalisation) - the digest comparison below is
                    // what the property constrains
                    let fed = hd.1.len() as u128;
                    let lazy1 = hd.2 + fed - (fed % b as u128);
                    let lazy2 = if fed > 0 && fed % b as u128 == 0 { hd.2 + fed - b as u128 } else { lazy1 };
                    if got != (after & mask) && got != (lazy1 & mask) && got != (lazy2 & mask) {
                        return Err(Violation::new("counter-invariant", i, format!("{:#x}", after & mask), format!("{:#x}", got), format!("{}: message length counter after update", name)));
                    }
                }
                2 => {
                    if hs.len() >= 4 {
                        continue;
                    }
                    let n = (guarded(|| hs[h].0.fork()).map_err(|m| Violation::new("unexpected-panic", i, "clone", m, name))?, hs[h].1.clone(), hs[h].2);
                    hs.push(n);
                }
                3 => {
                    let hd = &mut hs[h];
                    let got = guarded(|| hd.0.finalize_reset()).map_err(|m| Violation::new("unexpected-panic", i, "finalize_reset (total length inside the algorithm's domain)", m, format!("{} with {} bytes counted", name, hd.2 + hd.1.len() as u128)))?;
                    obs.out(&got);
                    let (p, log) = (hd.2, hd.1.clone());
                    let want = guarded(|| {
                        let mut o = make_l(name);
                        o.set_len(p);
                        o.update_mut(&log);
                        o.finalize()
                    })
                    .map_err(|m| Violation::new("unexpected-panic", i, "one-call path", m, name))?;
                    if got != want {
                        return Err(Violation::bytes("digest-mismatch", i, &want, &got, format!("{}: fragmented history vs one call over the same {} bytes with the length counter preset to {:#x}", name, log.len(), p)));
                    }
                    // a reset context counts from zero again
                    if hd.0.len() != 0 {
                        return Err(Violation::new("counter-invariant", i, "0", format!("{:#x}", hd.0.len()), format!("{}: message length counter after finalize_reset", name)));
                    }
                    hd.1.clear();
                    hd.2 = 0;
                }
                _ => {}
            }
        }
        let n = t.ops.len();
        for (obj, log, p) in hs.into_iter() {
            let got = guarded(move || obj.finalize()).map_err(|m| Violation::new("unexpected-panic", n, "finalize (total length inside the algorithm's domain)", m, format!("{} with {} bytes counted", name, p + log.len() as u128)))?;
            obs.out(&got);
            let want = guarded(|| {
                let mut o = make_l(name);
                o.set_len(p);
                o.update_mut(&log);
                o.finalize()
            })
            .map_err(|m| Violation::new("unexpected-panic", n, "one-call path", m, name))?;
            if got != want {
                return Err(Violation::bytes("digest-mismatch", n, &want, &got, format!("{}: fragmented history vs one call over the same {} bytes with the length counter preset to {:#x}", name, log.len(), p)));
            }
            if p == 0 {
                // after a reset the object must agree with the plain one-call digest
                let plain = crate::scn::hashctx::oneshot(name, 0, &[], &log);
                if plain != got {
                    return Err(Violation::bytes("digest-mismatch", n, &plain, &got, format!("{}: digest after finalize_reset of a preset context differs from the one-call digest", name)));
                }
            }
        }
        Ok(())
    }
}

// ------------------------------------------------------------------ validedge

/// The mirror image of the misuse catalogue: calls exactly ON the legal side of every documented limit.
/// Each must return normally, in every profile.
pub struct ValidEdge;

struct VEntry {
    name: &'static str,
    run: fn(a: u64, hist: u64) -> Vec<u8>,
    args: &'static [u64],
}

mod vcat {
    use crate::rng::data;
    use cryptoxide::hashing::{blake2b, blake2s};
    use cryptoxide::mac::Mac;

    /// ScryptParams::new on the legal boundary: p = floor((2^30 - 1) / r), log_n = min(16 r - 1, cap)
    pub fn scrypt_params_max_p(a: u64, _h: u64) -> Vec<u8> {
        let r = a as u32;
        let p = ((1u64 << 30) - 1) / r as u64;
        let log_n = (16 * r as u64 - 1).min(20) as u8;
        let _ = cryptoxide::scrypt::ScryptParams::new(log_n, r, p as u32);
        let _ = cryptoxide::scrypt::ScryptParams::new(1, r, 1);
        vec![1]
    }
    /// largest legal log_n for small r (constructor only: nothing is allocated)
    pub fn scrypt_params_max_log_n(a: u64, _h: u64) -> Vec<u8> {
        let r = a as u32;
        let log_n = (16 * r - 1).min(40) as u8;
        let _ = cryptoxide::scrypt::ScryptParams::new(log_n, r, 1);
        vec![1]
    }
    pub fn argon2_setters_max(a: u64, _h: u64) -> Vec<u8> {
        use cryptoxide::kdf::argon2::Params;
        let ok = match a {
            0 => Params::argon2d().parallelism(0xff_ffff).is_ok(),
            1 => Params::argon2i().parallelism(1).is_ok(),
            2 => Params::argon2id().iterations(u32::MAX).is_ok(),
            3 => Params::argon2d().iterations(1).is_ok(),
            4 => Params::argon2i().version(0x10).is_ok() && Params::argon2i().version(0x13).is_ok(),
            5 => Params::argon2id().memory_kb(8).is_ok(),
            _ => Params::argon2id().memory_kb(1).is_ok(), // documented: raised silently to 8 per lane
        };
        assert!(ok, "argon2 setter refused an in-range value");
        vec![ok as u8]
    }
    pub fn hkdf_exact_limit(a: u64, _h: u64) -> Vec<u8> {
        let mut okm = vec![0u8; match a { 0 => 255 * 32, 1 => 255 * 20, _ => 255 * 64 }];
        match a {
            0 => cryptoxide::hkdf::hkdf_expand(cryptoxide::sha2::Sha256::new(), &[1; 32], b"info", &mut okm),
            1 => cryptoxide::hkdf::hkdf_expand(cryptoxide::sha1::Sha1::new(), &[1; 20], b"", &mut okm),
            _ => cryptoxide::hkdf::hkdf_expand(cryptoxide::sha2::Sha512::new(), &[1; 64], b"info", &mut okm),
        }
        okm[okm.len() - 32..].to_vec()
    }
    pub fn blake2_limits(a: u64, h: u64) -> Vec<u8> {
        let w = data(h | 16, (h % 300) as usize);
        match a {
            0 => {
                let mut out = [0u8; 1];
                blake2b::Context::<1>::new().update(&w).finalize_at(&mut out);
                out.to_vec()
            }
            1 => {
                let mut out = [0u8; 1];
                blake2s::Context::<1>::new().update(&w).finalize_at(&mut out);
                out.to_vec()
            }
            2 => {
                let mut out = [0u8; 64];
                blake2b::Context::<512>::new_keyed(&[7; 64]).update(&w).finalize_at(&mut out);
                out.to_vec()
            }
            3 => {
                let mut out = [0u8; 32];
                blake2s::Context::<256>::new_keyed(&[7; 32]).update(&w).finalize_at(&mut out);
                out.to_vec()
            }
            4 => {
                let mut out = [0u8; 1];
                let mut c = blake2b::ContextDyn::new(1);
                c.update_mut(&w);
                c.reset_with_key(&[9; 64]);
                c.update_mut(&w);
                c.finalize_reset_with_key_at(&[], &mut out);
                out.to_vec()
            }
            5 => {
                let mut out = [0u8; 32];
                let mut c = blake2s::ContextDyn::new(32);
                c.update_mut(&w);
                c.reset_with_key(&[9; 32]);
                c.update_mut(&w);
                c.finalize_reset_with_key_at(&[1; 32], &mut out);
                out.to_vec()
            }
            6 => {
                let mut out = [0u8; 64];
                blake2b::Context::<505>::new().update(&w).finalize_at(&mut out);
                out.to_vec()
            }
            _ => {
                let mut out = [0u8; 32];
                blake2s::Context::<249>::new().update(&w).finalize_at(&mut out);
                out.to_vec()
            }
        }
    }
    pub fn poly_raw_result_sizes(a: u64, h: u64) -> Vec<u8> {
        let mut p = cryptoxide::poly1305::Poly1305::new(&[3; 32]);
        p.input(&data(h | 16, (h % 100) as usize));
        let mut out = vec![0xaau8; a as usize];
        p.raw_result(&mut out);
        out[..16].to_vec()
    }
    pub fn x25519_try_from_32(a: u64, _h: u64) -> Vec<u8> {
        use core::convert::TryFrom;
        let v = [a as u8; 32];
        let ok = cryptoxide::x25519::SecretKey::try_from(&v[..]).is_ok() && cryptoxide::x25519::PublicKey::try_from(&v[..]).is_ok() && cryptoxide::x25519::SharedSecret::try_from(&v[..]).is_ok();
        assert!(ok, "x25519 TryFrom refused a 32-byte slice");
        vec![1]
    }
    pub fn empty_inputs(a: u64, _h: u64) -> Vec<u8> {
        // zero-length data is inside every domain
        let mut out = Vec::new();
        match a {
            0 => {
                let mut c = cryptoxide::chacha20::ChaCha20::new(&[1; 32], &[0; 12]);
                c.process(&[], &mut []);
                c.process_mut(&mut []);
            }
            1 => {
                let mut c = cryptoxide::salsa20::Salsa20::new(&[1; 16], &[0; 8]);
                c.process(&[], &mut []);
            }
            2 => {
                let mut c = cryptoxide::chacha20poly1305::ChaCha20Poly1305::new(&[1; 16], &[0; 12], &[]);
                let mut tag = [0u8; 16];
                c.encrypt(&[], &mut [], &mut tag);
                out.extend_from_slice(&tag);
            }
            3 => {
                let mut okm = [0u8; 0];
                cryptoxide::hkdf::hkdf_expand(cryptoxide::sha2::Sha256::new(), &[1; 32], b"", &mut okm);
            }
            4 => {
                let mut d = [0u8; 5];
                cryptoxide::pbkdf2::pbkdf2(&mut cryptoxide::hmac::Hmac::new(cryptoxide::sha2::Sha256::new(), b""), b"", 1, &mut d);
                out.extend_from_slice(&d);
            }
            _ => {
                let mut drg = cryptoxide::drg::chacha::Drg::<8>::new(&[0; 32]);
                drg.fill_slice(&mut []);
                out.extend_from_slice(&drg.bytes::<4>());
            }
        }
        out
    }
}

fn vcatalogue() -> Vec<VEntry> {
    macro_rules! e {
        ($n:expr, $f:path, $a:expr) => {
            VEntry { name: $n, run: $f, args: $a }
        };
    }
    vec![
        e!("scrypt.params_largest_legal_p", vcat::scrypt_params_max_p, &[1, 2, 3, 4, 5, 6, 7, 8, 9, 10, 11, 12, 13, 15, 16, 17, 31, 33, 100, 127, 1000, 65537, 1048577, 16777215, 268435455, 268435456, 268435457, 536870912, 1073741823]),
        e!("scrypt.params_largest_legal_log_n", vcat::scrypt_params_max_log_n, &[1, 2, 3]),
        e!("argon2.setters_in_range", vcat::argon2_setters_max, &[0, 1, 2, 3, 4, 5, 6]),
        e!("hkdf.expand_exactly_255_blocks", vcat::hkdf_exact_limit, &[0, 1, 2]),
        e!("blake2.smallest_and_largest_sizes", vcat::blake2_limits, &[0, 1, 2, 3, 4, 5, 6, 7]),
        e!("poly1305.raw_result_buffer_at_least_16", vcat::poly_raw_result_sizes, &[16, 17, 32, 64]),
        e!("x25519.try_from_32_bytes", vcat::x25519_try_from_32, &[0, 9, 255]),
        e!("empty_inputs", vcat::empty_inputs, &[0, 1, 2, 3, 4, 5]),
    ]
}

static VALID_KINDS: std::sync::OnceLock<Vec<&'static str>> = std::sync::OnceLock::new();

impl Scenario for ValidEdge {
    fn name(&self) -> &'static str {
        "validedge"
    }
    fn kinds(&self) -> &'static [&'static str] {
        VALID_KINDS.get_or_init(|| vcatalogue().iter().map(|e| e.name).collect())
    }
    fn nontrivial_kind(&self, _k: u8) -> bool {
        true
    }
    fn real_vs_stub(&self) -> &'static str {
        "real: the entry points named in the catalogue, called exactly on the legal side of each documented limit; stub: scheduler/PRNG"
    }
    fn cover_rule(&self) -> &'static str {
        "(catalogue entry, argument) pairs executed"
    }
    fn generate(&self, rng: &mut Rng, _idx: u64, _tier: Tier) -> Trace {
        let mut t = Trace::new("validedge", "catalogue");
        for (k, e) in vcatalogue().iter().enumerate() {
            for a in e.args {
                t.ops.push(Op::new(0, k as u8).arg(*a).seed(rng.next_u64() >> 1));
            }
        }
        t
    }
    fn execute(&self, t: &Trace, obs: &mut Obs) -> Result<(), Violation> {
        let cat = vcatalogue();
        for (i, op) in t.ops.iter().enumerate() {
            let e = match cat.get(op.k as usize) {
                Some(e) => e,
                None => continue,
            };
            obs.begin_op(i);
            obs.cov(((op.k as u32) << 16) | (op.arg as u32 & 0xffff));
            let (a, h) = (op.arg, op.seed);
            let run = e.run;
            match guarded(move || run(a, h)) {
                Ok(out) => {
                    obs.hit("observed.returned_normally");
                    obs.out(&out);
                }
                Err(m) => {
                    return Err(Violation::new("unexpected-panic", i, "returns normally (argument on the legal side of the documented limit)", m, format!("{} (arg {})", e.name, op.arg)));
                }
            }
        }
        Ok(())
    }
}

// ------------------------------------------------------------------ misuse

pub struct Misuse;

/// outcome of one catalogue call
enum Out {
    /// returned an error value (loud)
    Refused,
    /// returned normally with a value: the misuse was NOT refused
    Returned(String),
}

struct Entry {
    name: &'static str,
    /// `a` = the entry's argument (a length etc.), `hist` = seed of the valid history before the call
    run: fn(a: u64, hist: u64) -> Out,
    /// arguments this entry is enumerated with
    args: &'static [u64],
}

fn ret(s: &str) -> Out {
    Out::Returned(s.to_string())
}

mod cat {
    use super::{ret, Out};
    use crate::rng::data;
    use cryptoxide::chacha20::{ChaCha, ChaChaOriginal, XChaCha};
    use cryptoxide::chacha20poly1305::{ChaChaPoly1305, Context};
    use cryptoxide::digest::Digest;
    use cryptoxide::drg::chacha::Drg;
    use cryptoxide::hashing::{blake2b, blake2s};
    use cryptoxide::mac::Mac;
    use cryptoxide::salsa20::{Salsa, XSalsa};

    // a short valid history before the invalid call, so that the refusal is exercised on a non-fresh object
    fn warm(hist: u64) -> usize {
        (hist % 200) as usize
    }

    pub fn chacha_key(a: u64, _h: u64) -> Out {
        let _ = ChaCha::<20>::new(&data(7, a as usize), &[0; 12]);
        ret("ChaCha::new accepted the key")
    }
    pub fn chacha_orig_key(a: u64, _h: u64) -> Out {
        let _ = ChaChaOriginal::<20>::new(&data(7, a as usize), &[0; 8]);
        ret("ChaChaOriginal::new accepted the key")
    }
    pub fn salsa_key(a: u64, _h: u64) -> Out {
        let _ = Salsa::<20>::new(&data(7, a as usize), &[0; 8]);
        ret("Salsa::new accepted the key")
    }
    pub fn aead_ctx_key(a: u64, _h: u64) -> Out {
        let _ = Context::<20>::new(&data(7, a as usize), &[0; 12]);
        ret("Context::new accepted the key")
    }
    pub fn aead_oneshot_key(a: u64, _h: u64) -> Out {
        let _ = ChaChaPoly1305::<20>::new(&data(7, a as usize), &[0; 12], b"aad");
        ret("ChaChaPoly1305::new accepted the key")
    }

    macro_rules! rounds_entries {
        ($($r:literal),*) => {
            pub fn chacha_rounds(a: u64, _h: u64) -> Out {
                match a { $($r => { let _ = ChaCha::<$r>::new(&[1; 32], &[0; 12]); })* _ => return Out::Refused }
                ret("ChaCha::<ROUNDS>::new accepted the round count")
            }
            pub fn xchacha_rounds(a: u64, _h: u64) -> Out {
                match a { $($r => { let _ = XChaCha::<$r>::new(&[1; 32], &[0; 24]); })* _ => return Out::Refused }
                ret("XChaCha::<ROUNDS>::new accepted the round count")
            }
            pub fn chacha_orig_rounds(a: u64, _h: u64) -> Out {
                match a { $($r => { let _ = ChaChaOriginal::<$r>::new(&[1; 32], &[0; 8]); })* _ => return Out::Refused }
                ret("ChaChaOriginal::<ROUNDS>::new accepted the round count")
            }
            pub fn salsa_rounds(a: u64, _h: u64) -> Out {
                match a { $($r => { let _ = Salsa::<$r>::new(&[1; 32], &[0; 8]); })* _ => return Out::Refused }
                ret("Salsa::<ROUNDS>::new accepted the round count")
            }
            pub fn xsalsa_rounds(a: u64, _h: u64) -> Out {
                match a { $($r => { let _ = XSalsa::<$r>::new(&[1; 32], &[0; 24]); })* _ => return Out::Refused }
                ret("XSalsa::<ROUNDS>::new accepted the round count")
            }
            pub fn drg_rounds(a: u64, _h: u64) -> Out {
                match a { $($r => { let _ = Drg::<$r>::new(&[1; 32]); })* _ => return Out::Refused }
                ret("Drg::<ROUNDS>::new accepted the round count")
            }
            pub fn aead_rounds(a: u64, _h: u64) -> Out {
                match a { $($r => { let _ = Context::<$r>::new(&[1; 32], &[0; 12]); })* _ => return Out::Refused }
                ret("chacha20poly1305::Context::<ROUNDS>::new accepted the round count")
            }
            pub fn aead_oneshot_rounds(a: u64, _h: u64) -> Out {
                match a { $($r => { let _ = ChaChaPoly1305::<$r>::new(&[1; 32], &[0; 12], &[]); })* _ => return Out::Refused }
                ret("ChaChaPoly1305::<ROUNDS>::new accepted the round count")
            }
        };
    }
    rounds_entries!(0, 1, 2, 3, 4, 5, 6, 7, 9, 10, 11, 13, 14, 15, 16, 17, 18, 19, 21, 22, 23, 24, 32, 40, 64);

    /// (input length, output length) of a mismatched buffer pair: output one shorter / one longer than the input,
    /// EMPTY input with a non-empty output, non-empty input with an EMPTY output
    fn mismatch(a: u64, n: usize) -> (usize, usize) {
        match a {
            0 => (n, n - 1),
            1 => (n, n + 1),
            2 => (0, 1),
            _ => (1, 0),
        }
    }

    /// process with mismatched buffer lengths (see `mismatch`), after a valid history
    macro_rules! process_mismatch {
        ($f:ident, $mk:expr) => {
            pub fn $f(a: u64, h: u64) -> Out {
                let mut c = $mk;
                let mut w = vec![0u8; warm(h)];
                c.process_mut(&mut w);
                let (il, ol) = mismatch(a, 40);
                let input = vec![0x33u8; il];
                let mut out = vec![0u8; ol];
                c.process(&input, &mut out);
                ret("process accepted buffers of different sizes")
            }
        };
    }
    process_mismatch!(chacha_process, ChaCha::<20>::new(&[1; 32], &[0; 12]));
    process_mismatch!(xchacha_process, XChaCha::<20>::new(&[1; 32], &[0; 24]));
    process_mismatch!(chacha_orig_process, ChaChaOriginal::<20>::new(&[1; 16], &[0; 8]));
    process_mismatch!(salsa_process, Salsa::<20>::new(&[1; 32], &[0; 8]));
    process_mismatch!(xsalsa_process, XSalsa::<20>::new(&[1; 32], &[0; 24]));

    pub fn aead_encrypt_len(a: u64, h: u64) -> Out {
        let mut c = Context::<20>::new(&[1; 32], &[0; 12]);
        c.add_data(&vec![0u8; warm(h)]);
        let mut e = c.to_encryption();
        let mut w = vec![0u8; warm(h / 3)];
        e.encrypt_mut(&mut w);
        let (il, ol) = mismatch(a, 10);
        let mut out = vec![0u8; ol];
        e.encrypt(&vec![0u8; il], &mut out);
        ret("ContextEncryption::encrypt accepted buffers of different sizes")
    }
    pub fn aead_decrypt_len(a: u64, h: u64) -> Out {
        let mut c = Context::<20>::new(&[1; 32], &[0; 12]);
        c.add_data(&vec![0u8; warm(h)]);
        let mut d = c.to_decryption();
        let (il, ol) = mismatch(a, 10);
        let mut out = vec![0u8; ol];
        d.decrypt(&vec![0u8; il], &mut out);
        ret("ContextDecryption::decrypt accepted buffers of different sizes")
    }
    pub fn aead_oneshot_encrypt_len(a: u64, h: u64) -> Out {
        let mut c = ChaChaPoly1305::<20>::new(&[1; 32], &[0; 12], &vec![0u8; warm(h)]);
        let (il, ol) = mismatch(a, 10);
        let mut out = vec![0u8; ol];
        let mut tag = [0u8; 16];
        c.encrypt(&vec![0u8; il], &mut out, &mut tag);
        ret("ChaChaPoly1305::encrypt accepted buffers of different sizes")
    }
    pub fn aead_oneshot_decrypt_len(a: u64, h: u64) -> Out {
        let mut c = ChaChaPoly1305::<20>::new(&[1; 32], &[0; 12], &vec![0u8; warm(h)]);
        let (il, ol) = mismatch(a, 10);
        let mut out = vec![0u8; ol];
        let ok = c.decrypt(&vec![0u8; il], &mut out, &[0u8; 16]);
        ret(&format!("ChaChaPoly1305::decrypt accepted buffers of different sizes (returned {})", ok))
    }
    pub fn aead_oneshot_tag_len(a: u64, h: u64) -> Out {
        let mut c = ChaChaPoly1305::<20>::new(&[1; 32], &[0; 12], &vec![0u8; warm(h)]);
        let mut out = [0u8; 10];
        let mut tag = vec![0u8; a as usize];
        c.encrypt(&[0u8; 10], &mut out, &mut tag);
        ret("ChaChaPoly1305::encrypt accepted a tag buffer that is not 16 bytes")
    }
    pub fn aead_oneshot_decrypt_tag_len(a: u64, h: u64) -> Out {
        let mut c = ChaChaPoly1305::<20>::new(&[1; 32], &[0; 12], &vec![0u8; warm(h)]);
        let mut out = [0u8; 10];
        let ok = c.decrypt(&[0u8; 10], &mut out, &vec![0u8; a as usize]);
        ret(&format!("ChaChaPoly1305::decrypt accepted a tag that is not 16 bytes (returned {})", ok))
    }
    /// second use of a one-shot object: a = first op | second op << 1 (0 = encrypt, 1 = decrypt) | 4 if the FIRST use
    /// carries an empty message (a completed use all the same)
    pub fn aead_oneshot_reuse(a: u64, h: u64) -> Out {
        let mut c = ChaChaPoly1305::<20>::new(&[1; 32], &[0; 12], &vec![0u8; warm(h)]);
        let mut out = [0u8; 10];
        let mut tag = [0u8; 16];
        let first_len = if a & 4 != 0 { 0 } else { 10 };
        if a & 1 == 0 {
            c.encrypt(&vec![0u8; first_len], &mut out[..first_len], &mut tag);
        } else {
            let _ = c.decrypt(&vec![0u8; first_len], &mut out[..first_len], &tag);
        }
        // first use succeeded; the second one must be refused - on the object itself, or (a & 8) on a clone taken AFTER
        // the first use: a copy of a used one-shot object is a used one-shot object
        let mut c = if a & 8 != 0 { c.clone() } else { c };
        let second = std::panic::catch_unwind(std::panic::AssertUnwindSafe(|| {
            if a & 2 == 0 {
                c.encrypt(&[0u8; 10], &mut out, &mut tag);
            } else {
                let _ = c.decrypt(&[0u8; 10], &mut out, &tag);
            }
        }));
        match second {
            Err(_) => Out::Refused,
            Ok(()) => ret("a one-shot ChaChaPoly1305 object was used twice"),
        }
    }

    // ---- BLAKE2
    pub fn b2b_dyn_outlen(a: u64, _h: u64) -> Out {
        let _ = blake2b::ContextDyn::new(a as usize);
        ret("blake2b::ContextDyn::new accepted the output length")
    }
    pub fn b2s_dyn_outlen(a: u64, _h: u64) -> Out {
        let _ = blake2s::ContextDyn::new(a as usize);
        ret("blake2s::ContextDyn::new accepted the output length")
    }
    pub fn b2b_bits(a: u64, _h: u64) -> Out {
        match a {
            0 => {
                let _ = blake2b::Context::<0>::new();
            }
            513 => {
                let _ = blake2b::Context::<513>::new();
            }
            520 => {
                let _ = blake2b::Context::<520>::new_keyed(&[1; 8]);
            }
            _ => {
                let _ = blake2b::Context::<1024>::new();
            }
        }
        ret("blake2b::Context::<BITS>::new accepted BITS")
    }
    pub fn b2s_bits(a: u64, _h: u64) -> Out {
        match a {
            0 => {
                let _ = blake2s::Context::<0>::new();
            }
            257 => {
                let _ = blake2s::Context::<257>::new();
            }
            264 => {
                let _ = blake2s::Context::<264>::new_keyed(&[1; 8]);
            }
            _ => {
                let _ = blake2s::Context::<512>::new();
            }
        }
        ret("blake2s::Context::<BITS>::new accepted BITS")
    }
    /// key one byte too long: a = entry point (0 new_keyed, 1 reset_with_key, 2 finalize_reset_with_key, 3 dyn new_keyed, 4 dyn reset_with_key, 5 dyn finalize_reset_with_key_at)
    pub fn b2b_key(a: u64, h: u64) -> Out {
        let key = [7u8; 65];
        let w = vec![1u8; warm(h)];
        match a {
            0 => {
                let _ = blake2b::Context::<256>::new_keyed(&key);
            }
            1 => {
                let mut c = blake2b::Context::<256>::new();
                c.update_mut(&w);
                c.reset_with_key(&key);
            }
            2 => {
                let mut c = blake2b::Context::<256>::new();
                c.update_mut(&w);
                let _ = c.finalize_reset_with_key(&key);
            }
            3 => {
                let _ = blake2b::ContextDyn::new_keyed(32, &key);
            }
            4 => {
                let mut c = blake2b::ContextDyn::new(32);
                c.update_mut(&w);
                c.reset_with_key(&key);
            }
            _ => {
                let mut c = blake2b::ContextDyn::new(32);
                c.update_mut(&w);
                let mut out = [0u8; 32];
                c.finalize_reset_with_key_at(&key, &mut out);
            }
        }
        ret("blake2b accepted a 65-byte key")
    }
    pub fn b2s_key(a: u64, h: u64) -> Out {
        let key = [7u8; 33];
        let w = vec![1u8; warm(h)];
        match a {
            0 => {
                let _ = blake2s::Context::<256>::new_keyed(&key);
            }
            1 => {
                let mut c = blake2s::Context::<256>::new();
                c.update_mut(&w);
                c.reset_with_key(&key);
            }
            2 => {
                let mut c = blake2s::Context::<256>::new();
                c.update_mut(&w);
                let _ = c.finalize_reset_with_key(&key);
            }
            3 => {
                let _ = blake2s::ContextDyn::new_keyed(32, &key);
            }
            4 => {
                let mut c = blake2s::ContextDyn::new(32);
                c.update_mut(&w);
                c.reset_with_key(&key);
            }
            _ => {
                let mut c = blake2s::ContextDyn::new(32);
                c.update_mut(&w);
                let mut out = [0u8; 32];
                c.finalize_reset_with_key_at(&key, &mut out);
            }
        }
        ret("blake2s accepted a 33-byte key")
    }
    /// finalize_at / finalize_reset_at with out.len() one off: a = (entry << 1) | longer
    pub fn b2_finalize_at(a: u64, h: u64) -> Out {
        let n = if a & 1 == 0 { 31 } else { 33 };
        let mut out = vec![0u8; n];
        let w = vec![1u8; warm(h)];
        match a >> 1 {
            0 => blake2b::Context::<256>::new().update(&w).finalize_at(&mut out),
            1 => blake2b::ContextDyn::new(32).update(&w).finalize_at(&mut out),
            2 => blake2s::Context::<256>::new().update(&w).finalize_at(&mut out),
            3 => blake2s::ContextDyn::new(32).update(&w).finalize_at(&mut out),
            4 => {
                let mut c = blake2b::Context::<256>::new();
                c.update_mut(&w);
                c.finalize_reset_at(&mut out)
            }
            5 => {
                let mut c = blake2s::ContextDyn::new(32);
                c.update_mut(&w);
                c.finalize_reset_at(&mut out)
            }
            6 => {
                let mut c = blake2b::ContextDyn::new(32);
                c.update_mut(&w);
                c.finalize_reset_with_key_at(&[1; 4], &mut out)
            }
            _ => {
                let mut c = blake2s::Context::<256>::new();
                c.update_mut(&w);
                c.finalize_reset_with_key_at(&[1; 4], &mut out)
            }
        }
        ret("BLAKE2 finalize*_at accepted an output slice of the wrong size")
    }
    pub fn legacy_blake2_params(a: u64, _h: u64) -> Out {
        match a {
            0 => {
                let _ = cryptoxide::blake2b::Blake2b::new(0);
            }
            1 => {
                let _ = cryptoxide::blake2b::Blake2b::new(65);
            }
            2 => {
                let _ = cryptoxide::blake2s::Blake2s::new(0);
            }
            3 => {
                let _ = cryptoxide::blake2s::Blake2s::new(33);
            }
            4 => {
                let _ = cryptoxide::blake2b::Blake2b::new_keyed(32, &[1; 65]);
            }
            5 => {
                let _ = cryptoxide::blake2s::Blake2s::new_keyed(32, &[1; 33]);
            }
            6 => {
                let mut out = [0u8; 65];
                cryptoxide::blake2b::Blake2b::blake2b(&mut out, b"abc", &[]);
            }
            7 => {
                let mut out = [0u8; 0];
                cryptoxide::blake2s::Blake2s::blake2s(&mut out, b"abc", &[]);
            }
            8 => {
                let mut m = cryptoxide::blake2b::Blake2b::new(32);
                m.reset_with_key(&[1; 65]);
            }
            9 => {
                let mut m = cryptoxide::blake2s::Blake2s::new(32);
                m.reset_with_key(&[1; 33]);
            }
            10 => {
                let _ = cryptoxide::blake2b::Blake2b::new_keyed(0, &[1; 8]);
            }
            11 => {
                let _ = cryptoxide::blake2b::Blake2b::new_keyed(65, &[1; 8]);
            }
            12 => {
                let _ = cryptoxide::blake2s::Blake2s::new_keyed(0, &[1; 8]);
            }
            13 => {
                let _ = cryptoxide::blake2s::Blake2s::new_keyed(33, &[1; 8]);
            }
            14 => {
                let mut out = [0u8; 32];
                cryptoxide::blake2b::Blake2b::blake2b(&mut out, b"abc", &[1; 65]);
            }
            15 => {
                let mut out = [0u8; 32];
                cryptoxide::blake2s::Blake2s::blake2s(&mut out, b"abc", &[1; 33]);
            }
            16 => {
                let _ = blake2b::ContextDyn::new_keyed(0, &[1; 8]);
            }
            17 => {
                let _ = blake2b::ContextDyn::new_keyed(65, &[1; 8]);
            }
            18 => {
                let _ = blake2s::ContextDyn::new_keyed(0, &[1; 8]);
            }
            _ => {
                let _ = blake2s::ContextDyn::new_keyed(33, &[1; 8]);
            }
        }
        ret("legacy BLAKE2 object accepted out-of-range parameters")
    }

    // ---- legacy digests and MACs: result into a buffer of the wrong size
    /// a = digest index * 2 + (0 shorter | 1 longer)
    pub fn digest_result_size(a: u64, h: u64) -> Out {
        let d = crate::scn::macs::DIGESTS[(a / 2) as usize % crate::scn::macs::DIGESTS.len()];
        let outlen = if d.max_out > 0 { d.max_out / 2 } else { 0 };
        let size = if d.spec_out > 0 { d.spec_out } else { outlen };
        let mut o = crate::scn::macs::make_digest(d.name, outlen);
        o.input(&vec![2u8; warm(h)]);
        let n = if a & 1 == 0 { size - 1 } else { size + 1 };
        let _ = o.result_into(n);
        ret(&format!("Digest::result of {} accepted a {}-byte buffer", d.name, n))
    }
    pub fn hmac_raw_result_size(a: u64, h: u64) -> Out {
        let d = crate::scn::macs::DIGESTS[(a / 2) as usize % crate::scn::macs::DIGESTS.len()];
        let outlen = if d.max_out > 0 { d.max_out / 2 } else { 0 };
        let size = if d.spec_out > 0 { d.spec_out } else { outlen };
        let mut o = crate::scn::macs::make_hmac(d.name, outlen, b"key");
        o.input(&vec![2u8; warm(h)]);
        let n = if a & 1 == 0 { size - 1 } else { size + 1 };
        let _ = o.result_into(n);
        ret(&format!("Hmac<{}>::raw_result accepted a {}-byte buffer", d.name, n))
    }
    pub fn blake_mac_raw_result_size(a: u64, h: u64) -> Out {
        let mut o = crate::scn::macs::make_blake_mac(a & 2 != 0, 24, b"key");
        o.input(&vec![2u8; warm(h)]);
        let _ = o.result_into(if a & 1 == 0 { 23 } else { 25 });
        ret("legacy BLAKE2 Mac::raw_result accepted a buffer of the wrong size")
    }
    pub fn poly_raw_result_small(a: u64, h: u64) -> Out {
        let mut p = cryptoxide::poly1305::Poly1305::new(&[3; 32]);
        p.input(&vec![2u8; warm(h)]);
        let mut out = vec![0u8; a as usize];
        p.raw_result(&mut out);
        ret("Poly1305::raw_result accepted a buffer shorter than 16 bytes")
    }

    // ---- KDFs
    pub fn hkdf_extract_prk(a: u64, _h: u64) -> Out {
        let mut prk = vec![0u8; a as usize];
        cryptoxide::hkdf::hkdf_extract(cryptoxide::sha2::Sha256::new(), b"salt", b"ikm", &mut prk);
        ret("hkdf_extract accepted a prk buffer that is not HashLen bytes")
    }
    pub fn hkdf_expand_too_long(a: u64, _h: u64) -> Out {
        match a {
            0 => {
                let mut okm = vec![0u8; 255 * 32 + 1];
                cryptoxide::hkdf::hkdf_expand(cryptoxide::sha2::Sha256::new(), &[1; 32], b"info", &mut okm);
            }
            1 => {
                let mut okm = vec![0u8; 255 * 20 + 1];
                cryptoxide::hkdf::hkdf_expand(cryptoxide::sha1::Sha1::new(), &[1; 20], b"", &mut okm);
            }
            _ => {
                let mut okm = vec![0u8; 256 * 64];
                cryptoxide::hkdf::hkdf_expand(cryptoxide::sha2::Sha512::new(), &[1; 64], b"info", &mut okm);
            }
        }
        ret("hkdf_expand produced more than 255*HashLen bytes")
    }
    pub fn pbkdf2_zero_iterations(_a: u64, _h: u64) -> Out {
        let mut out = [0u8; 20];
        cryptoxide::pbkdf2::pbkdf2(&mut cryptoxide::hmac::Hmac::new(cryptoxide::sha1::Sha1::new(), b"pw"), b"salt", 0, &mut out);
        ret("pbkdf2 accepted c = 0")
    }
    /// a indexes a table of invalid (log_n, r, p)
    pub fn scrypt_params(a: u64, _h: u64) -> Out {
        const BAD: [(u8, u32, u32); 12] = [
            (4, 0, 1),
            (4, 1, 0),
            (0, 1, 1),
            (16, 1, 1),           // log_n >= 16 r
            (32, 2, 1),           // log_n >= 16 r
            (64, 8, 1),           // log_n >= bits of usize
            (200, 16, 1),         //
            (4, 1 << 15, 1 << 15), // r * p >= 2^30
            (4, 1, 1 << 30),
            (4, u32::MAX, 1),
            (62, 4, 1), // n * r * 128 overflows
            (4, 1 << 25, 1 << 25),
        ];
        let (l, r, p) = BAD[a as usize % BAD.len()];
        let _ = cryptoxide::scrypt::ScryptParams::new(l, r, p);
        ret(&format!("ScryptParams::new accepted (log_n={}, r={}, p={})", l, r, p))
    }
    pub fn scrypt_empty_output(_a: u64, _h: u64) -> Out {
        let params = cryptoxide::scrypt::ScryptParams::new(1, 1, 1);
        let mut out = [0u8; 0];
        cryptoxide::scrypt::scrypt(b"pw", b"salt", &params, &mut out);
        ret("scrypt accepted an empty output")
    }
    pub fn argon2_setters(a: u64, _h: u64) -> Out {
        use cryptoxide::kdf::argon2::Params;
        let r = match a {
            0 => Params::argon2d().parallelism(0).map(|_| ()),
            1 => Params::argon2i().parallelism(0x1000000).map(|_| ()),
            2 => Params::argon2id().parallelism(u32::MAX).map(|_| ()),
            3 => Params::argon2d().iterations(0).map(|_| ()),
            4 => Params::argon2i().version(0).map(|_| ()),
            5 => Params::argon2id().version(0x11).map(|_| ()),
            _ => Params::argon2id().version(0x14).map(|_| ()),
        };
        match r {
            Err(_) => Out::Refused,
            Ok(()) => ret("argon2 Params setter accepted an out-of-range value"),
        }
    }
    pub fn x25519_try_from(a: u64, _h: u64) -> Out {
        use core::convert::TryFrom;
        let v = vec![1u8; (a >> 2) as usize];
        let ok = match a & 3 {
            0 => cryptoxide::x25519::SecretKey::try_from(&v[..]).is_ok(),
            1 => cryptoxide::x25519::PublicKey::try_from(&v[..]).is_ok(),
            _ => cryptoxide::x25519::SharedSecret::try_from(&v[..]).is_ok(),
        };
        if ok {
            ret("x25519 TryFrom accepted a slice that is not 32 bytes")
        } else {
            Out::Refused
        }
    }
    /// legacy digest / MAC used after result without reset (C20 statement: misuse is refused loudly)
    pub fn digest_input_after_result(a: u64, h: u64) -> Out {
        let d = crate::scn::macs::DIGESTS[a as usize % crate::scn::macs::DIGESTS.len()];
        let outlen = if d.max_out > 0 { d.max_out / 2 } else { 0 };
        let mut o = crate::scn::macs::make_digest(d.name, outlen);
        o.input(&vec![2u8; warm(h)]);
        let _ = o.result(false);
        o.input(b"more");
        ret(&format!("{}: input after result without reset was accepted", d.name))
    }
}

const KEYLENS: &[u64] = &[0, 1, 15, 17, 24, 31, 33, 64];
const BADROUNDS: &[u64] = &[0, 1, 2, 3, 4, 5, 6, 7, 9, 10, 11, 13, 14, 15, 16, 17, 18, 19, 21, 22, 23, 24, 32, 40, 64];
const TWO: &[u64] = &[0, 1];
const FOUR: &[u64] = &[0, 1, 2, 3];
const ONE: &[u64] = &[0];

fn catalogue() -> Vec<Entry> {
    macro_rules! e {
        ($n:expr, $f:path, $a:expr) => {
            Entry { name: $n, run: $f, args: $a }
        };
    }
    vec![
        e!("chacha.key_length", cat::chacha_key, KEYLENS),
        e!("chacha_original.key_length", cat::chacha_orig_key, KEYLENS),
        e!("salsa.key_length", cat::salsa_key, KEYLENS),
        e!("aead_context.key_length", cat::aead_ctx_key, KEYLENS),
        e!("aead_oneshot.key_length", cat::aead_oneshot_key, KEYLENS),
        e!("chacha.rounds", cat::chacha_rounds, BADROUNDS),
        e!("xchacha.rounds", cat::xchacha_rounds, BADROUNDS),
        e!("chacha_original.rounds", cat::chacha_orig_rounds, BADROUNDS),
        e!("salsa.rounds", cat::salsa_rounds, BADROUNDS),
        e!("xsalsa.rounds", cat::xsalsa_rounds, BADROUNDS),
        e!("drg.rounds", cat::drg_rounds, BADROUNDS),
        e!("aead_context.rounds", cat::aead_rounds, BADROUNDS),
        e!("aead_oneshot.rounds", cat::aead_oneshot_rounds, BADROUNDS),
        e!("chacha.process_length_mismatch", cat::chacha_process, FOUR),
        e!("xchacha.process_length_mismatch", cat::xchacha_process, FOUR),
        e!("chacha_original.process_length_mismatch", cat::chacha_orig_process, FOUR),
        e!("salsa.process_length_mismatch", cat::salsa_process, FOUR),
        e!("xsalsa.process_length_mismatch", cat::xsalsa_process, FOUR),
        e!("aead_context.encrypt_length_mismatch", cat::aead_encrypt_len, FOUR),
        e!("aead_context.decrypt_length_mismatch", cat::aead_decrypt_len, FOUR),
        e!("aead_oneshot.encrypt_length_mismatch", cat::aead_oneshot_encrypt_len, FOUR),
        e!("aead_oneshot.decrypt_length_mismatch", cat::aead_oneshot_decrypt_len, FOUR),
        e!("aead_oneshot.encrypt_tag_length", cat::aead_oneshot_tag_len, &[0, 15, 17, 32]),
        e!("aead_oneshot.decrypt_tag_length", cat::aead_oneshot_decrypt_tag_len, &[0, 15, 17, 32]),
        e!("aead_oneshot.reuse", cat::aead_oneshot_reuse, &[0, 1, 2, 3, 4, 5, 6, 7, 8, 9, 10, 11, 12, 13, 14, 15]),
        e!("blake2b.dyn_output_length", cat::b2b_dyn_outlen, &[0, 65, 128]),
        e!("blake2s.dyn_output_length", cat::b2s_dyn_outlen, &[0, 33, 64]),
        e!("blake2b.bits", cat::b2b_bits, &[0, 513, 520, 1024]),
        e!("blake2s.bits", cat::b2s_bits, &[0, 257, 264, 512]),
        e!("blake2b.key_too_long", cat::b2b_key, &[0, 1, 2, 3, 4, 5]),
        e!("blake2s.key_too_long", cat::b2s_key, &[0, 1, 2, 3, 4, 5]),
        e!("blake2.finalize_at_size", cat::b2_finalize_at, &[0, 1, 2, 3, 4, 5, 6, 7, 8, 9, 10, 11, 12, 13, 14, 15]),
        e!("legacy_blake2.parameters", cat::legacy_blake2_params, &[0, 1, 2, 3, 4, 5, 6, 7, 8, 9, 10, 11, 12, 13, 14, 15, 16, 17, 18, 19]),
        e!("legacy_digest.result_buffer_size", cat::digest_result_size, &[0, 1, 2, 3, 4, 5, 6, 7, 8, 9, 10, 11, 12, 13, 14, 15, 16, 17, 18, 19, 20, 21, 22, 23, 24, 25, 26, 27, 28, 29, 30, 31, 32, 33, 34, 35]),
        e!("hmac.raw_result_buffer_size", cat::hmac_raw_result_size, &[0, 1, 2, 3, 4, 5, 6, 7, 8, 9, 10, 11, 12, 13, 14, 15, 16, 17, 18, 19, 20, 21, 22, 23, 24, 25, 26, 27, 28, 29, 30, 31, 32, 33, 34, 35]),
        e!("legacy_blake2_mac.raw_result_buffer_size", cat::blake_mac_raw_result_size, &[0, 1, 2, 3]),
        e!("poly1305.raw_result_short_buffer", cat::poly_raw_result_small, &[0, 1, 15]),
        e!("hkdf.extract_prk_length", cat::hkdf_extract_prk, &[0, 31, 33, 64]),
        e!("hkdf.expand_beyond_limit", cat::hkdf_expand_too_long, &[0, 1, 2]),
        e!("pbkdf2.zero_iterations", cat::pbkdf2_zero_iterations, ONE),
        e!("scrypt.invalid_parameters", cat::scrypt_params, &[0, 1, 2, 3, 4, 5, 6, 7, 8, 9, 10, 11]),
        e!("scrypt.empty_output", cat::scrypt_empty_output, ONE),
        e!("argon2.setters", cat::argon2_setters, &[0, 1, 2, 3, 4, 5, 6]),
        e!("x25519.try_from_length", cat::x25519_try_from, &[0, 1, 2, 31 << 2, (31 << 2) | 1, (31 << 2) | 2, 33 << 2, (33 << 2) | 1, (33 << 2) | 2, 64 << 2]),
        e!("legacy_digest.input_after_result", cat::digest_input_after_result, &[0, 1, 2, 3, 4, 5, 6, 7, 8, 9, 10, 11, 12, 13, 14, 15, 16, 17]),
    ]
}

pub fn catalogue_size() -> usize {
    catalogue().iter().map(|e| e.args.len()).sum()
}

static MISUSE_KINDS: std::sync::OnceLock<Vec<&'static str>> = std::sync::OnceLock::new();

impl Scenario for Misuse {
    fn name(&self) -> &'static str {
        "misuse"
    }
    fn kinds(&self) -> &'static [&'static str] {
        MISUSE_KINDS.get_or_init(|| catalogue().iter().map(|e| e.name).collect())
    }
    fn nontrivial_kind(&self, _k: u8) -> bool {
        true
    }
    fn real_vs_stub(&self) -> &'static str {
        "real: every public entry point named in the catalogue, called with the invalid argument after a valid history of the same object; stub: scheduler/PRNG. A panic is caught by catch_unwind and counts as a loud refusal; a process abort or fault would kill the worker and is reported by the driver"
    }
    fn cover_rule(&self) -> &'static str {
        "(catalogue entry, argument) pairs executed"
    }
    fn generate(&self, rng: &mut Rng, _idx: u64, _tier: Tier) -> Trace {
        // the whole catalogue in every run; what varies is the valid history before each call
        let mut t = Trace::new("misuse", "catalogue");
        for (k, e) in catalogue().iter().enumerate() {
            for a in e.args {
                t.ops.push(Op::new(0, k as u8).arg(*a).seed(rng.next_u64() >> 1));
            }
        }
        t
    }
    fn execute(&self, t: &Trace, obs: &mut Obs) -> Result<(), Violation> {
        let cat = catalogue();
        for (i, op) in t.ops.iter().enumerate() {
            let e = match cat.get(op.k as usize) {
                Some(e) => e,
                None => continue,
            };
            obs.begin_op(i);
            obs.cov(((op.k as u32) << 16) | (op.arg as u32 & 0xffff));
            let (a, h) = (op.arg, op.seed);
            let run = e.run;
            match guarded(move || run(a, h)) {
                Err(_) => obs.hit("observed.refused_by_panic"),
                Ok(Out::Refused) => obs.hit("observed.refused_by_error_value"),
                Ok(Out::Returned(what)) => {
                    return Err(Violation::new("missing-refusal", i, "deterministic panic or error", "returned a value", format!("{} (arg {}): {}", e.name, op.arg, what)));
                }
            }
            obs.out_flag(e.name, true);
        }
        Ok(())
    }
}
