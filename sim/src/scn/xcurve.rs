//! C17 workloads: executed by the default build and by the `force-32bits` build with the same
//! seeds; the driver diffs the transcripts. Restricted to the API subset common to both backends
//! and to the documented operand discipline (at most one unreduced add/sub feeding a multiply;
//! scalars below 2^255), so that a difference is a defect and not an artefact.
//!
//! x25519hs  — two-party X25519 handshake; the channel may substitute the peer's u-coordinate by
//!             edge values (0, 1, p-1, p, p+1, 2^255-1, 2^256-1, small-order u); plus
//!             ed25519::exchange and keypair_matches_mont style cross-checks.
//! arithprog — seeded straight-line programs over Fe / Scalar / Ge (program generation executed in
//!             two builds and diffed; nothing in it is scheduled or faulted).

use crate::guard::guarded;
use crate::rng::{data, Rng};
use crate::trace::{Obs, Op, Scenario, Tier, Trace, Violation};
use cryptoxide::curve25519::{curve25519, curve25519_base, Fe, Ge, GePartial, Scalar};
use cryptoxide::{ed25519, x25519};

// ------------------------------------------------------------------ special byte strings

fn p_plus(delta: i32) -> [u8; 32] {
    // p = 2^255 - 19
    let mut b = [0xffu8; 32];
    b[31] = 0x7f;
    let v = 0xed as i32 + delta; // low byte of p is 0xed
    b[0] = v as u8;
    if v > 0xff {
        // carry through the 0xff bytes: p + delta for delta > 18 not needed here
    }
    b
}

/// u-coordinates / field encodings the properties single out; index by `sel`
pub fn special_fe(sel: u64, seed: u64) -> [u8; 32] {
    let mut b = [0u8; 32];
    match sel % 20 {
        0 => {}
        1 => b[0] = 1,
        2 => b = p_plus(-1),
        3 => b = p_plus(0),
        4 => b = p_plus(1),
        5 => {
            b = [0xff; 32];
            b[31] = 0x7f;
        }
        6 => b = [0xff; 32],
        7 => {
            // small-order u (order 8 on the curve)
            b = [0xe0, 0xeb, 0x7a, 0x7c, 0x3b, 0x41, 0xb8, 0xae, 0x16, 0x56, 0xe3, 0xfa, 0xf1, 0x9f, 0xc4, 0x6a, 0xda, 0x09, 0x8d, 0xeb, 0x9c, 0x32, 0xb1, 0xfd, 0x86, 0x62, 0x05, 0x16, 0x5f, 0x49, 0xb8, 0x00];
        }
        8 => {
            b = [0x5f, 0x9c, 0x95, 0xbc, 0xa3, 0x50, 0x8c, 0x24, 0xb1, 0xd0, 0xb1, 0x55, 0x9c, 0x83, 0xef, 0x5b, 0x04, 0x44, 0x5c, 0xc4, 0x58, 0x1c, 0x8e, 0x86, 0xd8, 0x22, 0x4e, 0xdd, 0xd0, 0x9f, 0x11, 0x57];
        }
        9 => b[0] = 9,
        10 => {
            b = [0xff; 32];
            b[31] = 0x7f;
            b[0] = 0xda; // p - 19
        }
        11 => {
            b[31] = 0x80; // top bit only
        }
        12 | 13 => {
            // limb-boundary encodings of both representations: 2^k + d for the fe32 radix positions
            // (26,51,77,102,128,153,179,204,230), fe64's (51,102,153,204) and the decoding carry
            // boundary 2^254, with d in -20..=20
            const KS: [u32; 12] = [25, 26, 51, 77, 102, 128, 153, 179, 204, 230, 254, 255];
            let k = KS[(seed % 12) as usize];
            let d = ((seed >> 8) % 41) as i64 - 20;
            // 2^k
            if k < 256 {
                b[(k / 8) as usize] = 1 << (k % 8);
            }
            // add d (little-endian, with borrow/carry)
            let mut carry = d;
            for x in b.iter_mut() {
                let t = *x as i64 + (carry & 0xff);
                *x = t as u8;
                carry = (carry >> 8) + (t >> 8);
            }
        }
        16 => {
            // limb-saturated: all ones below 2^255 with 1..=3 bits cleared (every limb of both radixes at or next to
            // its maximum: the longest carry chains of multiplication, squaring and reduction)
            b = [0xff; 32];
            b[31] = 0x7f;
            let n = 1 + (seed % 3);
            for j in 0..n {
                let bit = ((seed >> (8 + 8 * j)) % 255) as usize;
                b[bit / 8] &= !(1 << (bit % 8));
            }
        }
        17 => {
            // alternating limbs, maximum / zero, in the 51-bit radix (seed bit 0) or the 26/25-bit radix
            let bounds51: [usize; 6] = [0, 51, 102, 153, 204, 255];
            let bounds25: [usize; 11] = [0, 26, 51, 77, 102, 128, 153, 179, 204, 230, 255];
            let bounds: &[usize] = if seed & 1 == 0 { &bounds51 } else { &bounds25 };
            let phase = ((seed >> 1) & 1) as usize;
            for w in 0..bounds.len() - 1 {
                if w % 2 == phase {
                    for bit in bounds[w]..bounds[w + 1] {
                        b[bit / 8] |= 1 << (bit % 8);
                    }
                }
            }
        }
        18 => {
            // one limb at its maximum, everything else zero (either radix), optionally minus a small d
            let bounds25: [usize; 11] = [0, 26, 51, 77, 102, 128, 153, 179, 204, 230, 255];
            let w = (seed % 10) as usize;
            let hi = if seed & 0x100 == 0 { bounds25[w + 1] } else { bounds25[(w + 2).min(10)] };
            for bit in bounds25[w]..hi {
                b[bit / 8] |= 1 << (bit % 8);
            }
        }
        19 => {
            // p - small and p + small as 255-bit strings (non-canonical encodings next to the modulus), small < 2^16
            b = [0xff; 32];
            b[31] = 0x7f;
            let d = (seed >> 4) % 65536;
            // start from 2^255 - 1 = p + 18 and subtract d
            let mut borrow = d;
            for x in b.iter_mut() {
                let t = (*x as i64) - ((borrow & 0xff) as i64);
                borrow >>= 8;
                if t < 0 {
                    *x = (t + 256) as u8;
                    borrow += 1;
                } else {
                    *x = t as u8;
                }
                if borrow == 0 {
                    break;
                }
            }
        }
        _ => b.copy_from_slice(&data(seed | 16, 32)),
    }
    b
}

/// scalars: 0, 1, L-1, L, 2^252, 2^253-1, 2^255-1, random below 2^255
pub fn special_scalar(sel: u64, seed: u64) -> [u8; 32] {
    use crate::model::big::L;
    let mut b = [0u8; 32];
    match sel % 12 {
        0 => {}
        1 => b[0] = 1,
        2 => {
            b = L;
            b[0] -= 1;
        }
        3 => b = L,
        4 => b[31] = 0x10,
        5 => {
            b = [0xff; 32];
            b[31] = 0x1f;
        }
        6 => {
            b = [0xff; 32];
            b[31] = 0x7f;
        }
        7 => {
            b = L;
            b[0] += 1;
        }
        10 | 11 => {
            // runs of one repeated byte (0x77: every radix-16 digit one below the carry threshold; 0x88, 0xff: every digit
            // carries; ...) over a random stretch (10) or exactly one 64-bit word (11) of an otherwise random or zero
            // scalar, the nibble just below the run at or above 8 half of the time so that a carry enters the run:
            // window recodings (signed radix 16, sliding NAF) propagate a carry through the whole run
            let r = crate::rng::splitmix64(seed);
            if r & 1 == 0 {
                b.copy_from_slice(&data(seed | 16, 32));
            }
            let pat = [0x77u8, 0x88, 0xff, 0x00, 0x78, 0x87, 0x7f, 0xf8][((r >> 1) % 8) as usize];
            let (start, len) = if sel % 12 == 11 { (8 * ((r >> 4) % 4) as usize, 8usize) } else {
                let st = ((r >> 4) % 31) as usize;
                (st, 1 + ((r >> 9) as usize % (32 - st)))
            };
            for x in b[start..start + len].iter_mut() {
                *x = pat;
            }
            if start > 0 && (r >> 20) & 1 == 1 {
                b[start - 1] |= 0x80;
            }
            b[31] &= 0x7f;
        }
        _ => {
            b.copy_from_slice(&data(seed | 16, 32));
            b[31] &= 0x7f;
        }
    }
    b
}

// ------------------------------------------------------------------ x25519hs

pub const H_HANDSHAKE: u8 = 0; // seed: secrets; arg: 0 = clean channel, else substitute u (special_fe(arg-1))
pub const H_RAW: u8 = 1; // curve25519(n, u) on raw strings: n from seed, u special/random
pub const H_EXCHANGE: u8 = 2; // ed25519::exchange vs x25519 of the mapped keys
const H_KINDS: &[&str] = &["handshake", "raw_dh", "ed25519_exchange"];

pub struct X25519Hs;

impl Scenario for X25519Hs {
    fn name(&self) -> &'static str {
        "x25519hs"
    }
    fn kinds(&self) -> &'static [&'static str] {
        H_KINDS
    }
    fn nontrivial_kind(&self, _k: u8) -> bool {
        true
    }
    fn nontrivial(&self, t: &Trace) -> bool {
        !t.ops.is_empty()
    }
    fn real_vs_stub(&self) -> &'static str {
        "real: x25519::{base, dh}, curve25519::{curve25519, curve25519_base}, ed25519::{keypair, exchange}; stub: scheduler/PRNG, the substituting channel"
    }
    fn generate(&self, rng: &mut Rng, _idx: u64, _tier: Tier) -> Trace {
        let mut t = Trace::new("x25519hs", "x25519");
        let n = rng.range(1, 3);
        for _ in 0..n {
            let k = rng.below(3) as u8;
            let arg = if rng.chance(1, 2) { 0 } else { rng.range(1, 20) };
            let seed = match rng.below(12) { 0 => 0, 1 => 1, _ => rng.data_seed() };
            t.ops.push(Op::new(0, k).arg(arg).seed(seed));
        }
        t
    }
    fn execute(&self, t: &Trace, obs: &mut Obs) -> Result<(), Violation> {
        for (i, op) in t.ops.iter().enumerate() {
            obs.begin_op(i);
            let mut a = [0u8; 32];
            a.copy_from_slice(&data(op.seed, 32));
            let mut b = [0u8; 32];
            b.copy_from_slice(&data(op.seed ^ 0xb0b, 32));
            match op.k {
                H_HANDSHAKE => {
                    let r = guarded(|| {
                        let ska = x25519::SecretKey::from(a);
                        let skb = x25519::SecretKey::from(b);
                        // the key types' byte conversions both ways: From<[u8; 32]> / Into, TryFrom<&[u8]> / AsRef<[u8]>
                        let pa_obj = x25519::base(&ska);
                        let pa_ref = pa_obj.as_ref().to_vec();
                        let pa: [u8; 32] = pa_obj.into();
                        assert!(pa_ref[..] == pa[..], "PublicKey::as_ref and Into<[u8; 32]> disagree");
                        let pb: [u8; 32] = x25519::base(&skb).into();
                        let delivered_b = if op.arg == 0 { pb } else { special_fe(op.arg - 1, op.seed ^ 0xc4) };
                        use core::convert::TryFrom;
                        let pkb = x25519::PublicKey::try_from(&delivered_b[..]).expect("a 32-byte slice is a public key");
                        let s1_obj = x25519::dh(&ska, &pkb);
                        let s1_ref = s1_obj.as_ref().to_vec();
                        let s1: [u8; 32] = s1_obj.into();
                        assert!(s1_ref[..] == s1[..], "SharedSecret::as_ref and Into<[u8; 32]> disagree");
                        let s2: [u8; 32] = x25519::dh(&skb, &x25519::PublicKey::from(pa)).into();
                        (pa, pb, s1, s2)
                    });
                    let (pa, pb, s1, s2) = r.map_err(|m| Violation::new("unexpected-panic", i, "x25519 on any 32-byte strings", m, "x25519"))?;
                    obs.hit(if op.arg == 0 { "channel.untouched" } else { "fault.substituted_u_coordinate" });
                    obs.out(&pa);
                    obs.out(&pb);
                    obs.out(&s1);
                    obs.out(&s2);
                    if op.arg == 0 && s1 != s2 {
                        return Err(Violation::bytes("shared-secret-mismatch", i, &s2, &s1, "x25519: the two parties derived different secrets over an untouched channel"));
                    }
                }
                H_RAW => {
                    let u = special_fe(if op.arg == 0 { 15 } else { op.arg - 1 }, op.seed ^ 0x77);
                    let n = if op.arg % 5 == 0 { special_scalar(op.arg, op.seed) } else { a };
                    let (s, pb) = guarded(|| (curve25519(&n, &u), curve25519_base(&n))).map_err(|m| Violation::new("unexpected-panic", i, "curve25519 on any 32-byte strings", m, "curve25519"))?;
                    obs.hit("raw_dh");
                    obs.out(&s);
                    obs.out(&pb);
                    let mut nine = [0u8; 32];
                    nine[0] = 9;
                    let pb2 = guarded(|| curve25519(&n, &nine)).map_err(|m| Violation::new("unexpected-panic", i, "curve25519", m, "curve25519"))?;
                    if pb2 != pb {
                        return Err(Violation::bytes("base-mismatch", i, &pb2, &pb, "curve25519_base(n) != curve25519(n, 9)"));
                    }
                }
                H_EXCHANGE => {
                    let r = guarded(|| {
                        let (_, pk_a) = ed25519::keypair(&a);
                        let (_, pk_b) = ed25519::keypair(&b);
                        (ed25519::exchange(&pk_b, &a), ed25519::exchange(&pk_a, &b), pk_a, pk_b)
                    });
                    let (s1, s2, pk_a, pk_b) = r.map_err(|m| Violation::new("unexpected-panic", i, "ed25519::exchange", m, "ed25519"))?;
                    obs.hit("ed25519_exchange");
                    obs.out(&pk_a);
                    obs.out(&pk_b);
                    obs.out(&s1);
                    obs.out(&s2);
                    if s1 != s2 {
                        return Err(Violation::bytes("shared-secret-mismatch", i, &s2, &s1, "ed25519::exchange: the two parties derived different secrets"));
                    }
                }
                _ => {}
            }
        }
        Ok(())
    }
}

// ------------------------------------------------------------------ arithprog

/// Longest chain of additions / subtractions / negations without an intervening multiplication: depth 2 = three terms.
/// The 32-bit limb code (ref10) documents its operand bounds in source comments: sums of up to three reduced elements
/// (1.65 * 2^26 per limb) are what its multiplication accepts, and its `to_bytes` computes `19 * h9` in an i32, which
/// overflows from about 3.4 terms on. Longer chains are outside the 32-bit backend's operand domain: a divergence there is
/// an artefact, not a defect (a first version allowed 8 terms; the thorough tier then reported exactly such an artefact
/// on the unchanged tree - `((x + (p - x)) * 4).to_bytes()` - which was a false alarm and is why the bound is 2).
pub const MAX_CHAIN: u8 = 2;

pub const A_FE_LOAD: u8 = 0; // h = dst reg, arg = special selector, seed
pub const A_FE_ADD: u8 = 1; // h = dst, off = src1 | src2<<3
pub const A_FE_SUB: u8 = 2;
pub const A_FE_NEG: u8 = 3;
pub const A_FE_MUL: u8 = 4;
pub const A_FE_SQUARE: u8 = 5;
pub const A_FE_SQUARE_N: u8 = 6; // len = n (1..6)
pub const A_FE_INVERT: u8 = 7;
pub const A_FE_POW25523: u8 = 8;
pub const A_FE_OBSERVE: u8 = 9; // to_bytes, is_negative, is_nonzero
pub const A_FE_EQ: u8 = 10; // regs src1 == src2
pub const A_SC_REDUCE: u8 = 11; // reduce_from_wide_bytes(seed / special)
pub const A_SC_CANONICAL: u8 = 12; // from_bytes_canonical(special) -> Some/None
pub const A_SC_MULADD: u8 = 13;
pub const A_GE_BASE: u8 = 14; // scalarmult_base(special scalar)
pub const A_GE_DOUBLE_SCALARMULT: u8 = 15;
pub const A_GE_ADDSUB: u8 = 16; // P + Q, P - Q via cached, doubling
pub const A_GE_DECODE: u8 = 17; // from_bytes(special / random) -> to_bytes
pub const A_FE_SQUARE_DOUBLE: u8 = 18;
pub const A_FE_COMPLEMENT: u8 = 19; // dst = from_bytes(p - value(src1)): an independent representation of -src1
pub const A_FE_CONST: u8 = 21; // dst = one of the public constants Fe::{ZERO, ONE, SQRTM1, D, D2} (arg), observed at once
pub const A_FE_BITFLIP: u8 = 20; // dst = from_bytes(to_bytes(src1) with bit `arg` (0..254) flipped): unequal to src1 in exactly one bit
const A_KINDS: &[&str] = &[
    "fe_load", "fe_add", "fe_sub", "fe_neg", "fe_mul", "fe_square", "fe_square_n", "fe_invert", "fe_pow25523", "fe_observe", "fe_eq", "sc_reduce", "sc_canonical", "sc_muladd", "ge_base",
    "ge_double_scalarmult", "ge_addsub", "ge_decode", "fe_square_and_double", "fe_complement", "fe_bitflip", "fe_public_constant",
];

/// p - v for a canonical little-endian v < p (harness arithmetic, only used to build inputs)
fn p_minus(v: &[u8; 32]) -> [u8; 32] {
    let p = p_plus(0);
    let mut out = [0u8; 32];
    let mut borrow = 0i16;
    for i in 0..32 {
        let mut t = p[i] as i16 - v[i] as i16 - borrow;
        if t < 0 {
            t += 256;
            borrow = 1;
        } else {
            borrow = 0;
        }
        out[i] = t as u8;
    }
    out
}

pub struct ArithProg;

const NREG: usize = 6;

impl Scenario for ArithProg {
    fn name(&self) -> &'static str {
        "arithprog"
    }
    fn kinds(&self) -> &'static [&'static str] {
        A_KINDS
    }
    fn nontrivial_kind(&self, k: u8) -> bool {
        k != A_FE_LOAD
    }
    fn real_vs_stub(&self) -> &'static str {
        "real: curve25519::{Fe, Scalar, scalar::muladd, Ge, GePartial, GeCached} public operations of whichever backend the build selects; stub: program generator. This is seeded program generation executed in two builds and diffed, not scheduling or fault injection"
    }
    fn generate(&self, rng: &mut Rng, _idx: u64, tier: Tier) -> Trace {
        let mut t = Trace::new("arithprog", "curve25519");
        // registers start loaded; depth = number of unreduced add/sub since the last multiply
        let mut depth = [0u8; NREG];
        for r in 0..NREG {
            t.ops.push(Op::new(r as u8, A_FE_LOAD).arg(rng.below(20)).seed(rng.data_seed()));
        }
        if rng.chance(1, 3) {
            // one register starts as a public constant of the field-element type (they are part of the API of both backends)
            t.ops.push(Op::new(rng.below(NREG as u64) as u8, A_FE_CONST).arg(rng.below(5)));
        }
        let n = rng.range(2, if tier == Tier::Thorough { 40 } else { 20 });
        for _ in 0..n {
            let dst = rng.below(NREG as u64) as u8;
            let s1 = rng.below(NREG as u64) as u8;
            let s2 = rng.below(NREG as u64) as u8;
            let srcs = s1 | (s2 << 3);
            match rng.below(28) {
                0 | 1 | 2 => {
                    let k = if rng.chance(1, 2) { A_FE_ADD } else { A_FE_SUB };
                    // chains of additions / subtractions / negations without an intervening multiplication are
                    // public-API use like any other (nothing documents a limit); they are kept to MAX_CHAIN terms
                    let d = depth[s1 as usize] + depth[s2 as usize] + 1;
                    if d <= MAX_CHAIN {
                        t.ops.push(Op::new(dst, k).off(srcs));
                        depth[dst as usize] = d;
                    }
                }
                3 => {
                    if depth[s1 as usize] + 1 <= MAX_CHAIN {
                        t.ops.push(Op::new(dst, A_FE_NEG).off(srcs));
                        depth[dst as usize] = depth[s1 as usize] + 1;
                    }
                }
                26 => {
                    // a longer sum: dst = r0 +- r1 +- r2 ... over reduced registers, then observed and compared
                    if dst != s1 {
                        let terms = rng.range(1, MAX_CHAIN as u64) as u8;
                        let mut d = depth[s1 as usize];
                        let mut cur = s1;
                        for _ in 0..terms {
                            let r = rng.below(NREG as u64) as u8;
                            if d + depth[r as usize] + 1 > MAX_CHAIN {
                                break;
                            }
                            let k = if rng.chance(1, 2) { A_FE_ADD } else { A_FE_SUB };
                            // alternate which side the running sum is on
                            let srcs2 = if rng.chance(1, 2) { cur | (r << 3) } else { r | (cur << 3) };
                            t.ops.push(Op::new(dst, k).off(srcs2));
                            d = d + depth[r as usize] + 1;
                            cur = dst;
                        }
                        depth[dst as usize] = d;
                        t.ops.push(Op::new(dst, A_FE_OBSERVE));
                        t.ops.push(Op::new(0, A_FE_EQ).off(dst | (s2 << 3)));
                    }
                }
                4 | 5 | 6 | 7 => {
                    // multiplication takes operands with at most one pending addition (the bound of the 32-bit limb code)
                    if depth[s1 as usize] <= 1 && depth[s2 as usize] <= 1 {
                        t.ops.push(Op::new(dst, A_FE_MUL).off(srcs));
                        depth[dst as usize] = 0;
                    }
                }
                8 | 9 => {
                    if depth[s1 as usize] <= 1 {
                        t.ops.push(Op::new(dst, A_FE_SQUARE).off(srcs));
                        depth[dst as usize] = 0;
                    }
                }
                10 => {
                    if depth[s1 as usize] <= 1 {
                        t.ops.push(Op::new(dst, A_FE_SQUARE_N).off(srcs).len(rng.range(1, 6) as usize));
                        depth[dst as usize] = 0;
                    }
                }
                11 => {
                    if depth[s1 as usize] <= 1 {
                        t.ops.push(Op::new(dst, A_FE_INVERT).off(srcs));
                        depth[dst as usize] = 0;
                    }
                }
                12 => {
                    if depth[s1 as usize] <= 1 {
                        t.ops.push(Op::new(dst, A_FE_POW25523).off(srcs));
                        depth[dst as usize] = 0;
                    }
                }
                13 | 14 => t.ops.push(Op::new(s1, A_FE_OBSERVE)),
                15 => {
                    // x + (p - x): the value is 0 mod p but the limbs come from two independent decodings
                    if depth[s1 as usize] == 0 && dst != s1 {
                        t.ops.push(Op::new(dst, A_FE_COMPLEMENT).off(s1));
                        depth[dst as usize] = 0;
                        t.ops.push(Op::new(dst, if rng.chance(1, 2) { A_FE_ADD } else { A_FE_SUB }).off(s1 | (dst << 3)));
                        depth[dst as usize] = 1;
                        t.ops.push(Op::new(dst, A_FE_OBSERVE));
                        t.ops.push(Op::new(0, A_FE_EQ).off(dst | (s2 << 3)));
                    } else {
                        t.ops.push(Op::new(s1, A_FE_OBSERVE));
                    }
                }
                16 => t.ops.push(Op::new(0, A_FE_EQ).off(srcs)),
                17 => {
                    // a pair that differs in exactly one bit of its canonical value, compared both ways and observed
                    if dst != s1 {
                        t.ops.push(Op::new(dst, A_FE_BITFLIP).off(s1).arg(rng.below(255)));
                        depth[dst as usize] = 0;
                        t.ops.push(Op::new(0, A_FE_EQ).off(dst | (s1 << 3)));
                        t.ops.push(Op::new(0, A_FE_EQ).off(s1 | (dst << 3)));
                        t.ops.push(Op::new(dst, A_FE_OBSERVE));
                    } else {
                        t.ops.push(Op::new(0, A_FE_EQ).off(srcs));
                    }
                }
                18 => {
                    t.ops.push(Op::new(dst, A_FE_LOAD).arg(rng.below(20)).seed(rng.data_seed()));
                    depth[dst as usize] = 0;
                }
                19 => t.ops.push(Op::new(0, A_SC_REDUCE).arg(rng.below(18)).seed(rng.data_seed())),
                25 => t.ops.push(Op::new(0, A_SC_REDUCE).arg(16 + rng.below(2)).seed(rng.data_seed())),
                20 => t.ops.push(Op::new(0, A_SC_CANONICAL).arg(rng.below(24)).seed(rng.data_seed())),
                21 => t.ops.push(Op::new(0, A_SC_MULADD).arg(rng.below(8)).seed(rng.data_seed())),
                22 => t.ops.push(Op::new(0, A_GE_BASE).arg(rng.below(12)).seed(rng.data_seed())),
                23 => t.ops.push(Op::new(0, A_GE_DOUBLE_SCALARMULT).arg(rng.below(1 << 12)).seed(rng.data_seed())),
                24 => t.ops.push(Op::new(0, A_GE_ADDSUB).arg(rng.below(1 << 8)).seed(rng.data_seed())),
                _ => {
                    if rng.chance(1, 2) {
                        t.ops.push(Op::new(0, A_GE_DECODE).arg(rng.below(24)).seed(rng.data_seed()));
                    } else {
                        if depth[s1 as usize] <= 1 {
                            t.ops.push(Op::new(dst, A_FE_SQUARE_DOUBLE).off(srcs));
                            depth[dst as usize] = 0;
                        }
                    }
                }
            }
        }
        for r in 0..NREG {
            t.ops.push(Op::new(r as u8, A_FE_OBSERVE));
        }
        t
    }

    fn execute(&self, t: &Trace, obs: &mut Obs) -> Result<(), Violation> {
        let mut regs: Vec<Fe> = (0..NREG).map(|_| Fe::ONE).collect();
        // depth tracking is repeated here so that a shrunk / hand-written trace cannot leave the
        // documented operand discipline (an op that would is skipped)
        let mut depth = [0u8; NREG];
        let mut wide_of = |sel: u64, seed: u64| -> [u8; 64] {
            let mut w = [0u8; 64];
            match sel % 18 {
                0 => {}
                1 => w[..32].copy_from_slice(&crate::model::big::L),
                2 => {
                    w[..32].copy_from_slice(&crate::model::big::L);
                    w[0] -= 1;
                }
                3 => {
                    w[..32].copy_from_slice(&crate::model::big::L);
                    w[0] += 1;
                }
                4 => w = [0xff; 64],
                5 => {
                    // 8 * L
                    let l8 = crate::model::big::add_kl(&[0u8; 32], 8).unwrap();
                    w[..32].copy_from_slice(&l8);
                }
                6 | 7 => {
                    // boundary family: (a multiple of L) + 2^k - e, also with a random high half
                    let b = crate::model::big::boundary_scalar(seed);
                    w[..32].copy_from_slice(&b);
                    if sel % 18 == 7 {
                        w[32..].copy_from_slice(&data((seed >> 3) | 16, 32));
                    }
                }
                10 => {
                    // sparse: a low half below 2^252 (or from the boundary family) and ONE non-zero byte in the high half
                    if seed & 1 == 0 {
                        w[..32].copy_from_slice(&data((seed >> 9) | 16, 32));
                        w[31] &= 0x0f;
                    } else {
                        w[..32].copy_from_slice(&crate::model::big::boundary_scalar(seed >> 9));
                    }
                    let pos = 32 + ((seed >> 1) % 32) as usize;
                    w[pos] = 1 + ((seed >> 6) % 255) as u8;
                }
                11 => {
                    // 2^k - e for every k < 512
                    let k = (seed % 512) as usize;
                    let e = ((seed >> 9) % 3) as usize;
                    w[k / 8] = 1 << (k % 8);
                    for _ in 0..e {
                        let mut i = 0;
                        while i < 64 {
                            let (v, b) = w[i].overflowing_sub(1);
                            w[i] = v;
                            if !b {
                                break;
                            }
                            i += 1;
                        }
                    }
                }
                12 => {
                    // 1..=4 non-zero bytes anywhere
                    let n = 1 + (seed % 4) as usize;
                    let d = data((seed >> 2) | 16, 8);
                    for j in 0..n {
                        w[(d[j] % 64) as usize] = d[4 + j] | 1;
                    }
                }
                13 => {
                    // random low half, high half zero except its lowest or highest byte
                    w[..32].copy_from_slice(&data((seed >> 2) | 16, 32));
                    if seed & 1 == 0 {
                        w[32] = 1 + ((seed >> 9) % 255) as u8;
                    } else {
                        w[63] = 1 + ((seed >> 9) % 255) as u8;
                    }
                }
                14 => {
                    // a run of 0xff bytes [a, b), everything else zero
                    let a = (seed % 64) as usize;
                    let b = a + 1 + ((seed >> 6) % (64 - a as u64)) as usize;
                    for x in w[a..b].iter_mut() {
                        *x = 0xff;
                    }
                }
                16 | 17 => {
                    // q*L + r where q*L has a saturated window [p, p+w) (all ones for 16, all zeros for 17) at any bit
                    // position and for the limb widths in use (8, 16, 21, 28, 32, 51, 56, 64) or a random one: the
                    // borrow / carry chains of a reduction are only stressed when the subtracted multiple of L has
                    // such a limb (about 2^-56 per random input for 56-bit limbs)
                    const WIDTHS: [usize; 8] = [8, 16, 21, 28, 32, 51, 56, 64];
                    let width = if seed & 8 == 0 { WIDTHS[((seed >> 4) % 8) as usize] } else { 1 + ((seed >> 4) % 64) as usize };
                    // windows aligned to a multiple of their own width (where limbs of that width sit) or anywhere
                    let pos = if seed & 4 == 0 { width * (((seed >> 12) as usize) % (256 / width)) } else { ((seed >> 12) % 250) as usize };
                    let mut filler = [0u8; 32];
                    filler.copy_from_slice(&data((seed >> 20) | 16, 32));
                    let mut r = [0u8; 32];
                    match (seed >> 1) & 3 {
                        0 => {}
                        1 => {
                            r.copy_from_slice(&crate::model::big::L);
                            r[0] -= 1;
                        }
                        _ => {
                            r.copy_from_slice(&data((seed >> 24) | 16, 32));
                            r[31] &= 0x0f;
                        }
                    }
                    w = crate::model::big::wide_with_saturated_window(pos, width, sel % 18 == 16, &filler, &r);
                }
                15 => {
                    // random value with a run of zero bytes [a, b)
                    w.copy_from_slice(&data((seed >> 12) | 16, 64));
                    let a = (seed % 64) as usize;
                    let b = a + 1 + ((seed >> 6) % (64 - a as u64)) as usize;
                    for x in w[a..b].iter_mut() {
                        *x = 0;
                    }
                }
                _ => w.copy_from_slice(&data(seed | 16, 64)),
            }
            w
        };
        for (i, op) in t.ops.iter().enumerate() {
            obs.begin_op(i);
            let dst = (op.h as usize) % NREG;
            let s1 = (op.off & 7) as usize % NREG;
            let s2 = ((op.off >> 3) & 7) as usize % NREG;
            let what = A_KINDS.get(op.k as usize).copied().unwrap_or("?");
            let r: Result<(), String> = match op.k {
                A_FE_LOAD => {
                    let b = special_fe(op.arg, op.seed);
                    guarded(|| Fe::from_bytes(&b)).map(|f| {
                        regs[dst] = f;
                        depth[dst] = 0;
                    })
                }
                A_FE_ADD | A_FE_SUB => {
                    let d = depth[s1] + depth[s2] + 1;
                    if d > MAX_CHAIN {
                        continue;
                    }
                    if d > 2 {
                        obs.hit("probe.addition_chain_of_three_or_more_terms");
                    }
                    let (x, y) = (regs[s1].clone(), regs[s2].clone());
                    guarded(|| if op.k == A_FE_ADD { &x + &y } else { &x - &y }).map(|f| {
                        regs[dst] = f;
                        depth[dst] = d;
                    })
                }
                A_FE_NEG => {
                    if depth[s1] + 1 > MAX_CHAIN {
                        continue;
                    }
                    let x = regs[s1].clone();
                    let d = depth[s1] + 1;
                    guarded(|| -&x).map(|f| {
                        regs[dst] = f;
                        depth[dst] = d;
                    })
                }
                A_FE_MUL => {
                    if depth[s1] > 1 || depth[s2] > 1 {
                        continue;
                    }
                    let (x, y) = (regs[s1].clone(), regs[s2].clone());
                    guarded(|| &x * &y).map(|f| {
                        regs[dst] = f;
                        depth[dst] = 0;
                    })
                }
                A_FE_SQUARE | A_FE_SQUARE_N | A_FE_INVERT | A_FE_POW25523 | A_FE_SQUARE_DOUBLE => {
                    if depth[s1] > 1 {
                        continue;
                    }
                    let x = regs[s1].clone();
                    let n = (op.len as usize).clamp(1, 8);
                    guarded(|| match op.k {
                        A_FE_SQUARE => x.square(),
                        A_FE_SQUARE_N => x.square_repeatdly(n),
                        A_FE_INVERT => x.invert(),
                        A_FE_SQUARE_DOUBLE => x.square_and_double(),
                        _ => x.pow25523(),
                    })
                    .map(|f| {
                        regs[dst] = f;
                        depth[dst] = 0;
                    })
                }
                A_FE_COMPLEMENT => {
                    let x = regs[s1].clone();
                    guarded(|| Fe::from_bytes(&p_minus(&x.to_bytes()))).map(|f| {
                        regs[dst] = f;
                        depth[dst] = 0;
                    })
                }
                A_FE_BITFLIP => {
                    let x = regs[s1].clone();
                    let bit = (op.arg % 255) as usize;
                    guarded(|| {
                        let mut b = x.to_bytes();
                        b[bit / 8] ^= 1 << (bit % 8);
                        Fe::from_bytes(&b)
                    })
                    .map(|f| {
                        regs[dst] = f;
                        depth[dst] = 0;
                    })
                }
                A_FE_CONST => {
                    let c = match op.arg % 5 {
                        0 => Fe::ZERO,
                        1 => Fe::ONE,
                        2 => Fe::SQRTM1,
                        3 => Fe::D,
                        _ => Fe::D2,
                    };
                    guarded(|| (c.to_bytes(), c.is_negative())).map(|(b, neg)| {
                        obs.out(&b);
                        obs.out_flag("is_negative", neg);
                        regs[dst] = c.clone();
                        depth[dst] = 0;
                    })
                }
                A_FE_OBSERVE => {
                    let x = regs[dst].clone();
                    guarded(|| (x.to_bytes(), x.is_negative(), x.is_nonzero())).map(|(b, neg, nz)| {
                        obs.out(&b);
                        obs.out_flag("is_negative", neg);
                        obs.out_flag("is_nonzero", nz);
                    })
                }
                A_FE_EQ => {
                    let (x, y) = (regs[s1].clone(), regs[s2].clone());
                    guarded(|| (x == y, x.to_bytes() == y.to_bytes(), x != y)).map(|(e, same_value, ne)| {
                        obs.out_flag("fe_eq", e);
                        obs.out_flag("fe_ne", ne); // the != operator is an entry point of its own (PartialEq::ne can be overridden)
                        if same_value && s1 != s2 {
                            obs.hit("probe.fe_eq_on_equal_values_in_distinct_registers");
                        }
                    })
                }
                A_SC_REDUCE => {
                    let w = wide_of(op.arg, op.seed);
                    guarded(|| Scalar::reduce_from_wide_bytes(&w).to_bytes()).map(|b| obs.out(&b))
                }
                A_SC_CANONICAL => {
                    // every selector, including values at and above L (this is a decoder: any string is in its domain)
                    let mut b = if op.arg >= 12 { crate::model::big::boundary_scalar(op.seed) } else { special_scalar(op.arg, op.seed) };
                    if op.arg < 12 && op.arg % 12 >= 8 && op.seed & 1 == 1 {
                        // random with high bits set: between L and 2^256
                        b[31] |= 0x10 | ((op.seed >> 8) as u8 & 0xe0);
                    }
                    guarded(|| Scalar::from_bytes_canonical(&b).map(|s| s.to_bytes())).map(|r| {
                        obs.out_flag("canonical", r.is_some());
                        if let Some(x) = r {
                            obs.out(&x);
                        }
                    })
                }
                A_SC_MULADD => {
                    // the multiply-add of signing, S = (h * a + r) mod L, through hook H5 with chosen operands. Operand domain
                    // as in signing: h and r reduced (below L), a below 2^255. The sum h*a + r is steered next to multiples
                    // of L and to limb boundaries, which hash-derived operands reach with probability 2^-28 or less.
                    #[cfg(not(feature = "hooks"))]
                    {
                        obs.hit("skipped.hooks_unavailable");
                        continue;
                    }
                    #[cfg(feature = "hooks")]
                    {
                        use crate::model::big;
                        let sub256 = |x: &[u8; 32], y: &[u8; 32]| -> [u8; 32] {
                            let mut out = [0u8; 32];
                            let mut borrow = 0i16;
                            for i in 0..32 {
                                let mut t = x[i] as i16 - y[i] as i16 - borrow;
                                if t < 0 {
                                    t += 256;
                                    borrow = 1;
                                } else {
                                    borrow = 0;
                                }
                                out[i] = t as u8;
                            }
                            out
                        };
                        let reduced = |seed: u64| -> [u8; 32] {
                            let mut w = [0u8; 64];
                            w[..32].copy_from_slice(&data(seed | 16, 32));
                            big::mod_l(&w[..32])
                        };
                        let one = {
                            let mut o = [0u8; 32];
                            o[0] = 1;
                            o
                        };
                        let (h, a, r): ([u8; 32], [u8; 32], [u8; 32]) = match op.arg % 8 {
                            0 => (reduced(op.seed), special_scalar(8, op.seed ^ 5), reduced(op.seed ^ 9)),
                            1 | 2 => {
                                // h = 1: the sum is a + r; choose r so that a + r is a boundary value (base + 2^k - e, base in
                                // {0, L, 2^252, 2L, 8L}) when that leaves r reduced, else fall back to random r
                                let a = if op.arg % 8 == 1 { reduced(op.seed ^ 3) } else { special_scalar(8, op.seed ^ 3) };
                                let target = big::boundary_scalar(op.seed >> 7);
                                let r = sub256(&target, &a);
                                let r = if big::lt_l(&r) && !big::lt_l(&sub256(&a, &target)) || big::lt_l(&r) { r } else { reduced(op.seed ^ 11) };
                                (one, a, r)
                            }
                            3 => {
                                // h * a is an exact small multiple of ... nothing: a = 0, the sum is r alone
                                ([0u8; 32], reduced(op.seed), reduced(op.seed ^ 1))
                            }
                            4 => {
                                // every operand at its maximum: L-1, 2^255-1, L-1
                                let mut lm1 = big::L;
                                lm1[0] -= 1;
                                let mut amax = [0xffu8; 32];
                                amax[31] = 0x7f;
                                (lm1, amax, lm1)
                            }
                            5 => {
                                // h = L-1 (= -1): the sum is r - a (mod L): with r = a + boundary the result is the boundary value
                                let mut lm1 = big::L;
                                lm1[0] -= 1;
                                let a = reduced(op.seed ^ 3);
                                (lm1, a, big::mod_l(&big::boundary_scalar(op.seed >> 7)))
                            }
                            6 => (big::mod_l(&big::boundary_scalar(op.seed >> 3)), big::boundary_scalar(op.seed >> 11), reduced(op.seed ^ 17)),
                            _ => (special_scalar(op.seed % 12, op.seed), special_scalar((op.seed >> 4) % 12, op.seed ^ 1), special_scalar((op.seed >> 8) % 12, op.seed ^ 2)),
                        };
                        // keep to the operand domain of signing
                        let h = if big::lt_l(&h) { h } else { big::mod_l(&h) };
                        let r = if big::lt_l(&r) { r } else { big::mod_l(&r) };
                        let mut a = a;
                        a[31] &= 0x7f;
                        guarded(|| cryptoxide::curve25519::scalar::verif_muladd(&Scalar::from_bytes(&h), &Scalar::from_bytes(&a), &Scalar::from_bytes(&r)).to_bytes()).map(|b| obs.out(&b))
                    }
                }
                A_GE_BASE => {
                    let mut a = special_scalar(op.arg, op.seed);
                    // scalarmult_base documents its operand range as a[31] <= 0x80, i.e. up to 2^255 + 2^248 - 1:
                    // the top of that range for a share of the calls (selector bit 6 of the seed)
                    if op.seed & 0x40 != 0 && op.arg % 4 == 3 {
                        a[31] = 0x80;
                    }
                    guarded(|| Ge::scalarmult_base(&Scalar::from_bytes(&a)).to_bytes()).map(|b| obs.out(&b))
                }
                A_GE_DOUBLE_SCALARMULT => {
                    let a = special_scalar(op.arg & 15, op.seed);
                    let b = special_scalar((op.arg >> 4) & 15, op.seed ^ 1);
                    let p = special_scalar(8, op.seed ^ 3);
                    guarded(|| {
                        let pt = Ge::scalarmult_base(&Scalar::from_bytes(&p));
                        GePartial::double_scalarmult_vartime(&Scalar::from_bytes(&a), pt, &Scalar::from_bytes(&b)).to_bytes()
                    })
                    .map(|b| obs.out(&b))
                }
                A_GE_ADDSUB => {
                    let a = special_scalar(op.arg & 15, op.seed);
                    let b = special_scalar((op.arg >> 4) & 15, op.seed ^ 1);
                    guarded(|| {
                        let p = Ge::scalarmult_base(&Scalar::from_bytes(&a));
                        let q = Ge::scalarmult_base(&Scalar::from_bytes(&b));
                        let qc = q.to_cached();
                        let sum = (&p + &qc).to_full().to_bytes();
                        let diff = (&p - &qc).to_full().to_bytes();
                        let dbl = p.double().to_bytes();
                        let dblp = p.double_partial().to_bytes();
                        // the same through the by-value operator, the partial representations and their conversions
                        let diffv = (p.clone() - qc.clone()).to_partial().to_bytes();
                        let part = p.clone().to_partial();
                        let partb = part.to_bytes();
                        let dblf = part.double_full().to_bytes();
                        let dblpp = part.double().to_bytes();
                        // the completed-point doubling of both representations, converted both ways
                        let mut d11 = p.double_p1p1().to_full().to_bytes().to_vec();
                        d11.extend_from_slice(&p.double_p1p1().to_partial().to_bytes());
                        d11.extend_from_slice(&part.double_p1p1().to_full().to_bytes());
                        d11.extend_from_slice(&part.double_p1p1().to_partial().to_bytes());
                        (sum, diff, dbl, dblp, diffv, partb, dblf, (dblpp, d11))
                    })
                    .map(|(s, d, db, dp, dv, pb, df, (dpp, d11))| {
                        obs.out(&d11);
                        obs.out(&s);
                        obs.out(&d);
                        obs.out(&db);
                        obs.out(&dp);
                        obs.out(&dv);
                        obs.out(&pb);
                        obs.out(&df);
                        obs.out(&dpp);
                    })
                }
                A_GE_DECODE => {
                    let b = if op.arg < 8 {
                        crate::scn::sigchannel::TORSION[op.arg as usize]
                    } else if op.arg < 20 {
                        special_fe(op.arg - 8, op.seed)
                    } else {
                        // an honest point, then flip the sign bit sometimes
                        let mut x = [0u8; 32];
                        x.copy_from_slice(&data(op.seed | 16, 32));
                        x
                    };
                    guarded(|| Ge::from_bytes(&b).map(|g| g.to_bytes())).map(|r| {
                        obs.out_flag("decodes", r.is_some());
                        if let Some(x) = r {
                            obs.out(&x);
                        }
                    })
                }
                _ => Ok(()),
            };
            r.map_err(|m| Violation::new("unexpected-panic", i, "operation inside the documented operand range returns", m, what))?;
            obs.hit("curve_ops");
        }
        Ok(())
    }
}
