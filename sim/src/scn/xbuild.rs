//! Workloads whose outputs are compared across builds (C16, C17, C20): the same seeds are
//! executed by every binary of the build matrix and the transcripts are diffed by the driver.
//!
//! hashbulk  — SHA-224/256, BLAKE2b, BLAKE2s contexts with a bulk bias: 1..=20 blocks per update
//!             (4-way / 8-way batches plus every tail size), every input alignment 0..31, after
//!             every possible partial-buffer fill, from arbitrary chaining states, keyed/unkeyed.
//! englock   — SSE2/active ChaCha engine vs the portable engine in lock-step inside one binary.
//! kdfprobe  — HKDF / PBKDF2 / scrypt / Argon2 with small parameters (outputs only).

use crate::guard::guarded;
use crate::rng::{data, Rng};
use crate::scn::hashctx::{self, HashCtx, VARIANTS};
use crate::scn::macs;
use crate::scn::streams::Engine;
use crate::trace::{Obs, Op, Scenario, Tier, Trace, Violation};
#[cfg(feature = "hooks")]
use cryptoxide::chacha::verif::{ActiveEngine, PortableEngine};

// ------------------------------------------------------------------ hashbulk

pub struct HashBulk;

fn vectorised_variants() -> Vec<usize> {
    VARIANTS.iter().enumerate().filter(|(_, v)| v.sha256_family || v.max_key > 0).map(|(i, _)| i).collect()
}

impl Scenario for HashBulk {
    fn name(&self) -> &'static str {
        "hashbulk"
    }
    fn kinds(&self) -> &'static [&'static str] {
        HashCtx.kinds()
    }
    fn nontrivial_kind(&self, k: u8) -> bool {
        HashCtx.nontrivial_kind(k)
    }
    fn nontrivial(&self, t: &Trace) -> bool {
        // a partial-buffer prefix followed by at least one multi-block update
        t.ops.len() >= 2
    }
    fn real_vs_stub(&self) -> &'static str {
        "real: SHA-224/256 and BLAKE2b/BLAKE2s contexts and whichever block function the build selected (portable, SSE4.1, AVX, AVX2); stub: scheduler/PRNG, byte-log model"
    }
    fn cover_rule(&self) -> &'static str {
        HashCtx.cover_rule()
    }
    fn generate(&self, rng: &mut Rng, _idx: u64, _tier: Tier) -> Trace {
        let vs = vectorised_variants();
        let var = VARIANTS[*rng.pick(&vs)];
        let b = var.block;
        let mut t = Trace::new("hashbulk", var.name);
        if var.dynamic {
            t.set_p("outlen", rng.range(1, var.max_key as u64));
        }
        let keyed = var.max_key > 0 && rng.chance(1, 2);
        t.set_p("key_len", if keyed { hashctx::key_len(rng, var.max_key).max(1) as u64 } else { 0 });
        t.set_p("key_seed", rng.data_seed());
        // arbitrary chaining state: a few blocks first (sometimes)
        if rng.chance(1, 2) {
            t.ops.push(Op::new(0, hashctx::K_UPDATE_MUT).len(b * rng.range(1, 3) as usize).seed(rng.data_seed()).off(rng.below(32) as u8));
        }
        // every possible partial-buffer fill
        let fill = rng.below(b as u64) as usize;
        if fill > 0 {
            t.ops.push(Op::new(0, hashctx::K_UPDATE_MUT).len(fill).seed(rng.data_seed()).off(rng.below(32) as u8));
        }
        let n = rng.range(1, 4);
        for _ in 0..n {
            let blocks = rng.range(1, 20) as usize;
            let delta: i64 = match rng.below(5) { 0 => -1, 1 => 1, 2 => (b as i64 - fill as i64) % b as i64, _ => 0 };
            let len = ((blocks * b) as i64 + delta).max(0) as usize;
            let k = if rng.chance(1, 2) { hashctx::K_UPDATE } else { hashctx::K_UPDATE_MUT };
            t.ops.push(Op::new(0, k).len(len).seed(rng.data_seed()).off(rng.below(32) as u8));
            if rng.chance(1, 8) {
                t.ops.push(Op::new(0, hashctx::K_FINRESET).off(rng.below(2) as u8));
            }
        }
        t.ops.push(Op::new(0, hashctx::K_FINALIZE).off(rng.below(2) as u8));
        t
    }
    fn execute(&self, t: &Trace, obs: &mut Obs) -> Result<(), Violation> {
        HashCtx.execute(t, obs)
    }
}

// ------------------------------------------------------------------ englock

pub const E_INIT: u8 = 0; // arg = keylen | noncelen << 8, seed
pub const E_ROUNDS: u8 = 1;
pub const E_ADD_BACK: u8 = 2;
pub const E_SET_COUNTER: u8 = 3;
pub const E_SET_COUNTER64: u8 = 4;
pub const E_INCREMENT: u8 = 5;
pub const E_INCREMENT64: u8 = 6;
pub const E_OUTPUT_AD: u8 = 7;
const E_KINDS: &[&str] = &["init", "rounds", "add_back", "set_counter", "set_counter64", "increment", "increment64", "output_ad"];

pub struct EngLock;

fn englock_run<A: Engine, P: Engine>(t: &Trace, obs: &mut Obs) -> Result<(), Violation> {
    let mut a: Option<(A, A)> = None; // (state, snapshot at init)
    let mut p: Option<(P, P)> = None;
    for (i, op) in t.ops.iter().enumerate() {
        obs.begin_op(i);
        if op.k == E_INIT {
            let kl = if op.arg & 0xff == 16 { 16 } else { 32 };
            let nl = match (op.arg >> 8) & 0xff { 8 => 8, 12 => 12, _ => 16 };
            let key = data(op.seed, kl);
            let nonce = data(op.seed ^ 0x6e6f6e, nl);
            obs.cov(((kl as u32) << 8) | nl as u32);
            let ea = guarded(|| A::e_init(&key, &nonce)).map_err(|m| Violation::new("unexpected-panic", i, "init", m, "active engine"))?;
            let ep = guarded(|| P::e_init(&key, &nonce)).map_err(|m| Violation::new("unexpected-panic", i, "init", m, "portable engine"))?;
            a = Some((ea.clone(), ea));
            p = Some((ep.clone(), ep));
        } else {
            let (sa, ia) = match a.as_mut() { Some(x) => x, None => continue };
            let (sp, ip) = p.as_mut().unwrap();
            let r = guarded(|| match op.k {
                E_ROUNDS => { sa.e_rounds(); sp.e_rounds(); }
                E_ADD_BACK => { sa.e_add_back(ia); sp.e_add_back(ip); }
                E_SET_COUNTER => { sa.e_set_counter(op.arg as u32); sp.e_set_counter(op.arg as u32); *ia = sa.clone(); *ip = sp.clone(); }
                E_SET_COUNTER64 => { sa.e_set_counter64(op.arg); sp.e_set_counter64(op.arg); *ia = sa.clone(); *ip = sp.clone(); }
                E_INCREMENT => { sa.e_increment(); sp.e_increment(); }
                E_INCREMENT64 => { sa.e_increment64(); sp.e_increment64(); }
                _ => {}
            });
            r.map_err(|m| Violation::new("unexpected-panic", i, "engine op", m, E_KINDS[op.k as usize]))?;
            if op.k == E_OUTPUT_AD {
                let (mut oa, mut op2) = ([0u8; 32], [0u8; 32]);
                sa.e_output_ad(&mut oa);
                sp.e_output_ad(&mut op2);
                obs.out(&oa);
                if oa != op2 {
                    return Err(Violation::bytes("engines-differ", i, &op2, &oa, "output_ad_bytes: active engine vs portable engine"));
                }
            }
        }
        let (sa, _) = a.as_ref().unwrap();
        let (sp, _) = p.as_ref().unwrap();
        let (mut oa, mut op2) = ([0u8; 64], [0u8; 64]);
        sa.e_output(&mut oa);
        sp.e_output(&mut op2);
        obs.out(&oa);
        if oa != op2 {
            return Err(Violation::bytes("engines-differ", i, &op2, &oa, format!("state after '{}': active engine vs portable engine", E_KINDS[op.k as usize])));
        }
        if sa.e_counter64() != sp.e_counter64() {
            return Err(Violation::new("engines-differ", i, format!("{:#x}", sp.e_counter64()), format!("{:#x}", sa.e_counter64()), "counter words: active engine vs portable engine"));
        }
    }
    Ok(())
}

impl Scenario for EngLock {
    fn name(&self) -> &'static str {
        "englock"
    }
    fn kinds(&self) -> &'static [&'static str] {
        E_KINDS
    }
    fn nontrivial_kind(&self, k: u8) -> bool {
        k != E_INIT
    }
    fn real_vs_stub(&self) -> &'static str {
        "real: chacha::sse2::State (or whatever engine the target selects) and chacha::reference::State through hook H3, side by side in one process; stub: scheduler/PRNG"
    }
    fn cover_rule(&self) -> &'static str {
        "(key length, nonce length) of every init"
    }
    fn generate(&self, rng: &mut Rng, idx: u64, _tier: Tier) -> Trace {
        let mut t = Trace::new("englock", "engines");
        t.set_p("rounds", *rng.pick(&[8u64, 12, 20]));
        // the first 6 runs enumerate every (key length, nonce length)
        let (kl, nl) = if idx < 6 { ([16u64, 32][(idx % 2) as usize], [8u64, 12, 16][(idx / 2) as usize]) } else { (*rng.pick(&[16u64, 32]), *rng.pick(&[8u64, 12, 16])) };
        t.ops.push(Op::new(0, E_INIT).arg(kl | (nl << 8)).seed(match rng.below(8) { 0 => 0, 1 => 1, _ => rng.data_seed() }));
        let n = rng.range(1, 12);
        for _ in 0..n {
            let k = rng.range(1, 7) as u8;
            let arg = match k {
                E_SET_COUNTER => *rng.pick(&[0u64, 1, 0xffff_fffe, 0xffff_ffff, 0x1234_5678]),
                E_SET_COUNTER64 => *rng.pick(&[0u64, 0xffff_ffff, 0xffff_fffe, 0x1_0000_0000, 0xffff_ffff_ffff_ffff, 0x0123_4567_89ab_cdef]),
                _ => 0,
            };
            t.ops.push(Op::new(0, k).arg(arg));
            if (k == E_SET_COUNTER || k == E_SET_COUNTER64) && rng.chance(1, 2) {
                t.ops.push(Op::new(0, if k == E_SET_COUNTER { E_INCREMENT } else { E_INCREMENT64 }));
            }
        }
        t
    }
    #[cfg(feature = "hooks")]
    fn execute(&self, t: &Trace, obs: &mut Obs) -> Result<(), Violation> {
        match t.p("rounds") {
            8 => englock_run::<ActiveEngine<8>, PortableEngine<8>>(t, obs),
            12 => englock_run::<ActiveEngine<12>, PortableEngine<12>>(t, obs),
            _ => englock_run::<ActiveEngine<20>, PortableEngine<20>>(t, obs),
        }
    }
    #[cfg(not(feature = "hooks"))]
    fn execute(&self, _t: &Trace, obs: &mut Obs) -> Result<(), Violation> {
        obs.hit("skipped.hooks_unavailable");
        Ok(())
    }
}

// ------------------------------------------------------------------ kdfprobe

pub const D_HKDF: u8 = 0; // arg = digest index, len = okm length, seed
pub const D_PBKDF2: u8 = 1; // arg = prf | c << 8, len = dkLen
pub const D_SCRYPT: u8 = 2; // arg = log_n | r << 8 | p << 16, len = dkLen
pub const D_ARGON2: u8 = 3; // arg = type | version<<4 | t<<8 | p<<12 | m<<16, len = tag length
const D_KINDS: &[&str] = &["hkdf", "pbkdf2", "scrypt", "argon2"];

pub struct KdfProbe;

/// `used`: history of the digest object handed to hkdf_extract / hkdf_expand - 0 fresh, 1 bytes pending, 2 result
/// already taken (both functions take the object by value and start from its reset state)
fn hkdf_run(digest: &str, salt: &[u8], ikm: &[u8], info: &[u8], l: usize, used: u8) -> (Vec<u8>, Vec<u8>) {
    use cryptoxide::digest::Digest;
    use cryptoxide::hkdf::{hkdf_expand, hkdf_extract};
    use cryptoxide::{sha1, sha2, sha3};
    macro_rules! go {
        ($d:expr, $n:expr) => {{
            let mk = || {
                let mut d = $d;
                if used >= 1 {
                    d.input(b"bytes fed to the digest object before it was handed over");
                }
                if used >= 2 {
                    let mut o = vec![0u8; $n];
                    d.result(&mut o);
                }
                d
            };
            let mut prk = vec![0u8; $n];
            hkdf_extract(mk(), salt, ikm, &mut prk);
            let mut okm = crate::rng::Aligned::dirty(0xa5a5 ^ info.len() as u64, l); // dirty, misaligned destination
            hkdf_expand(mk(), &prk, info, &mut okm);
            (prk, okm.to_vec())
        }};
    }
    match digest {
        "sha1" => go!(sha1::Sha1::new(), 20),
        "sha256" => go!(sha2::Sha256::new(), 32),
        "sha512" => go!(sha2::Sha512::new(), 64),
        "sha224" => go!(sha2::Sha224::new(), 28),
        _ => go!(sha3::Sha3_256::new(), 32),
    }
}

fn pbkdf2_run(prf: u64, pw: &[u8], salt: &[u8], c: u32, l: usize) -> Vec<u8> {
    use cryptoxide::hmac::Hmac;
    use cryptoxide::pbkdf2::pbkdf2;
    use cryptoxide::{blake2b, blake2s, ripemd160, sha1, sha2, sha3};
    let mut out = crate::rng::Aligned::dirty(0x3c3c ^ salt.len() as u64, l);
    // PRFs with every output length class: 20, 28, 32, 48, 64 bytes, and odd BLAKE2 sizes (33..63, 17..31) both through
    // Hmac and as keyed-BLAKE2 MACs in their own right (the key of a BLAKE2 MAC is limited to 64 / 32 bytes)
    let kb = &pw[..pw.len().min(64)];
    let ks = &pw[..pw.len().min(32)];
    let odd_b = 33 + (salt.len() + pw.len()) % 31;
    let odd_s = 17 + (salt.len() + pw.len()) % 15;
    match prf % 14 {
        0 => pbkdf2(&mut Hmac::new(sha1::Sha1::new(), pw), salt, c, &mut out),
        1 => pbkdf2(&mut Hmac::new(sha2::Sha256::new(), pw), salt, c, &mut out),
        2 => pbkdf2(&mut Hmac::new(sha2::Sha512::new(), pw), salt, c, &mut out),
        3 => pbkdf2(&mut Hmac::new(sha2::Sha224::new(), pw), salt, c, &mut out),
        4 => pbkdf2(&mut Hmac::new(sha2::Sha384::new(), pw), salt, c, &mut out),
        5 => pbkdf2(&mut Hmac::new(sha2::Sha512Trunc224::new(), pw), salt, c, &mut out),
        6 => pbkdf2(&mut Hmac::new(sha3::Sha3_384::new(), pw), salt, c, &mut out),
        7 => pbkdf2(&mut Hmac::new(sha3::Sha3_224::new(), pw), salt, c, &mut out),
        8 => pbkdf2(&mut Hmac::new(ripemd160::Ripemd160::new(), pw), salt, c, &mut out),
        9 => pbkdf2(&mut Hmac::new(blake2b::Blake2b::new(odd_b), pw), salt, c, &mut out),
        10 => pbkdf2(&mut Hmac::new(blake2s::Blake2s::new(odd_s), pw), salt, c, &mut out),
        11 => pbkdf2(&mut blake2b::Blake2b::new_keyed(odd_b, kb), salt, c, &mut out),
        12 => pbkdf2(&mut blake2s::Blake2s::new_keyed(odd_s, ks), salt, c, &mut out),
        _ => pbkdf2(&mut Hmac::new(sha3::Keccak512::new(), pw), salt, c, &mut out),
    }
    out.to_vec()
}

pub fn argon2_params(ty: u64, version: u64, t: u32, p: u32, m: u32) -> cryptoxide::kdf::argon2::Params {
    use cryptoxide::kdf::argon2::Params;
    let base = match ty % 3 {
        0 => Params::argon2d(),
        1 => Params::argon2i(),
        _ => Params::argon2id(),
    };
    base.memory_kb(m).unwrap().iterations(t).unwrap().parallelism(p).unwrap().version(if version == 0 { 0x10 } else { 0x13 }).unwrap()
}

impl Scenario for KdfProbe {
    fn name(&self) -> &'static str {
        "kdfprobe"
    }
    fn kinds(&self) -> &'static [&'static str] {
        D_KINDS
    }
    fn nontrivial_kind(&self, _k: u8) -> bool {
        true
    }
    fn nontrivial(&self, t: &Trace) -> bool {
        !t.ops.is_empty()
    }
    fn real_vs_stub(&self) -> &'static str {
        "real: hkdf_extract/hkdf_expand, pbkdf2, ScryptParams::new + scrypt, argon2::Params + argon2_at / argon2::<32>; stub: scheduler/PRNG. No specification oracle here (C10/C11 are not claimed): outputs are only compared across builds and profiles, and argon2_at is compared with argon2::<N>"
    }
    fn generate(&self, rng: &mut Rng, _idx: u64, tier: Tier) -> Trace {
        let mut t = Trace::new("kdfprobe", "kdf");
        let n = rng.range(1, 3);
        for _ in 0..n {
            match rng.below(8) {
                0 | 1 | 2 => {
                    let hl = [20usize, 32, 64, 28, 32];
                    let d = rng.below(5);
                    let l = match rng.below(8) { 0 => 0, 1 => 1, 2 => hl[d as usize] - 1, 3 => hl[d as usize], 4 => hl[d as usize] + 1, 5 => 255 * hl[d as usize], _ => rng.below(300) as usize };
                    let used = [0u8, 0, 1, 2][rng.below(4) as usize];
                    t.ops.push(Op::new(used, D_HKDF).arg(d).len(l).seed(rng.data_seed()).off(rng.below(40) as u8));
                }
                3 | 4 | 5 => {
                    let c = match rng.below(6) { 0 => 1, 1 => 2, 2 => 3, 3 if tier == Tier::Thorough => rng.range(100, 1000), _ => rng.range(1, 20) };
                    let l = match rng.below(6) { 0 => 1, 1 => 20, 2 => 21, 3 => 64, 4 => 65, _ => rng.range(1, 200) as usize };
                    t.ops.push(Op::new(0, D_PBKDF2).arg(rng.below(14) | (c << 8)).len(l).seed(rng.data_seed()).off(rng.below(40) as u8));
                }
                6 => {
                    let deep = rng.chance(1, if tier == Tier::Thorough { 4 } else { 12 });
                    let log_n = rng.range(1, if deep { 10 } else if tier == Tier::Thorough { 6 } else { 4 });
                    let r = rng.range(1, if deep { 8 } else { 3 });
                    let p = rng.range(1, if deep { 4 } else { 2 });
                    t.ops.push(Op::new(0, D_SCRYPT).arg(log_n | (r << 8) | (p << 16)).len(rng.range(1, 130) as usize).seed(rng.data_seed()).off(rng.below(20) as u8));
                }
                _ => {
                    let deep = rng.chance(1, if tier == Tier::Thorough { 4 } else { 12 });
                    let p = rng.range(1, if deep { 5 } else { 3 });
                    // memory from 8p blocks up; deep runs reach segment lengths above 128 and sizes not divisible by 4p
                    let m = if deep { rng.range(8 * p, 8 * p + 3000) } else { rng.range(8 * p, 8 * p + 40) };
                    let tt = rng.range(1, if deep { 4 } else { 2 });
                    let l = match rng.below(5) { 0 => 4, 1 => 32, 2 => 64, 3 => 65, _ => rng.range(4, if deep { 300 } else { 140 }) as usize };
                    t.ops.push(Op::new(0, D_ARGON2).arg(rng.below(3) | (rng.below(2) << 4) | (tt << 8) | (p << 12) | (m << 16)).len(l).seed(rng.data_seed()).off(rng.below(20) as u8));
                }
            }
        }
        t
    }
    fn execute(&self, t: &Trace, obs: &mut Obs) -> Result<(), Violation> {
        for (i, op) in t.ops.iter().enumerate() {
            obs.begin_op(i);
            let a = data(op.seed, 8 + op.off as usize); // password / ikm
            let b = data(op.seed ^ 0x5a17, (op.off as usize * 3) % 50); // salt
            let c = data(op.seed ^ 0x1f0, (op.off as usize * 7) % 30); // info / aad
            match op.k {
                D_HKDF => {
                    let names = ["sha1", "sha256", "sha512", "sha224", "sha3_256"];
                    let hl = [20usize, 32, 64, 28, 32];
                    let d = (op.arg % 5) as usize;
                    let l = (op.len as usize).min(255 * hl[d]);
                    obs.hit("kdf.hkdf");
                    let used = op.h % 3;
                    if used > 0 {
                        obs.hit(if used == 1 { "fault.hkdf_digest_object_with_pending_bytes" } else { "fault.hkdf_digest_object_already_finalised" });
                    }
                    let (prk, okm) = guarded(|| hkdf_run(names[d], &b, &a, &c, l, used)).map_err(|m| Violation::new("unexpected-panic", i, "hkdf on valid input", m, format!("{} (digest object history before the call: {})", names[d], ["fresh", "bytes pending", "result already taken"][used as usize])))?;
                    obs.out(&prk);
                    obs.out(&okm);
                }
                D_PBKDF2 => {
                    let cnt = (((op.arg >> 8) & 0xffff) as u32).clamp(1, 1000);
                    let l = (op.len as usize).clamp(1, 400);
                    obs.hit("kdf.pbkdf2");
                    let out = guarded(|| pbkdf2_run(op.arg & 0xff, &a, &b, cnt, l)).map_err(|m| Violation::new("unexpected-panic", i, "pbkdf2 on valid input", m, "pbkdf2"))?;
                    obs.out(&out);
                }
                D_SCRYPT => {
                    let log_n = ((op.arg & 0xff) as u8).clamp(1, 10);
                    let r = (((op.arg >> 8) & 0xff) as u32).clamp(1, 8);
                    let p = (((op.arg >> 16) & 0xff) as u32).clamp(1, 4);
                    let l = (op.len as usize).clamp(1, 200);
                    if (log_n as u32) >= r * 16 {
                        continue;
                    }
                    obs.hit("kdf.scrypt");
                    let out = guarded(|| {
                        let params = cryptoxide::scrypt::ScryptParams::new(log_n, r, p);
                        let mut out = crate::rng::Aligned::dirty(op.seed ^ 0x7777, l);
                        cryptoxide::scrypt::scrypt(&a, &b, &params, &mut out);
                        out.to_vec()
                    })
                    .map_err(|m| Violation::new("unexpected-panic", i, "scrypt on valid input", m, "scrypt"))?;
                    obs.out(&out);
                }
                D_ARGON2 => {
                    let ty = op.arg & 0xf;
                    let ver = (op.arg >> 4) & 0xf;
                    let tt = (((op.arg >> 8) & 0xf) as u32).clamp(1, 4);
                    let p = (((op.arg >> 12) & 0xf) as u32).clamp(1, 5);
                    let m = (((op.arg >> 16) & 0xffff) as u32).clamp(8 * p, 4096);
                    let l = (op.len as usize).clamp(4, 300);
                    let salt = data(op.seed ^ 0x5a17, 8 + (op.off as usize % 9));
                    let key = data(op.seed ^ 0x4b, (op.off as usize) % 9);
                    obs.hit("kdf.argon2");
                    let out = guarded(|| {
                        let params = argon2_params(ty, ver, tt, p, m);
                        let mut tag = crate::rng::Aligned::dirty(op.seed ^ 0x1111, l);
                        cryptoxide::kdf::argon2::argon2_at(&params, &a, &salt, &key, &c, &mut tag);
                        tag.to_vec()
                    })
                    .map_err(|m| Violation::new("unexpected-panic", i, "argon2 on valid input", m, "argon2"))?;
                    obs.out(&out);
                    if l == 32 {
                        let arr = guarded(|| cryptoxide::kdf::argon2::argon2::<32>(&argon2_params(ty, ver, tt, p, m), &a, &salt, &key, &c)).map_err(|m| Violation::new("unexpected-panic", i, "argon2 on valid input", m, "argon2"))?;
                        if arr[..] != out[..] {
                            return Err(Violation::bytes("entry-points-differ", i, &out, &arr, "argon2::<32> vs argon2_at"));
                        }
                    }
                }
                _ => {}
            }
        }
        let _ = macs::DIGESTS;
        Ok(())
    }
}
