//! Shared wrappers over the five stream-cipher context types (+ the portable engine, hook H3).

use crate::model::chacha::Family;
#[cfg(feature = "hooks")]
use cryptoxide::chacha::verif::{ActiveEngine, PortableEngine};

/// false when the simulator was built without /repo's verif-hooks feature (fallback build: /repo does not compile with it)
pub const HOOKS: bool = cfg!(feature = "hooks");
use cryptoxide::chacha20::{ChaCha, ChaChaOriginal, XChaCha};
use cryptoxide::salsa20::{Salsa, XSalsa};

pub trait StreamObj {
    fn process(&mut self, input: &[u8], out: &mut [u8]);
    fn process_mut(&mut self, d: &mut [u8]);
    fn fork(&self) -> Box<dyn StreamObj>;
    /// public seek (ChaCha / XChaCha only)
    fn seek(&mut self, _n: u32) {
        unreachable!()
    }
    /// hook H2: preset the 64-bit block counter (ChaChaOriginal / Salsa / XSalsa, portable wrappers)
    fn set_counter64(&mut self, _n: u64) {
        unreachable!()
    }
    /// hook: block counter of the next block to generate (None: built without hooks)
    fn counter(&self) -> Option<u64>;
}

macro_rules! seekable {
    ($w:ident, $t:ident) => {
        pub struct $w<const R: usize>(pub $t<R>);
        impl<const R: usize> StreamObj for $w<R> {
            fn process(&mut self, input: &[u8], out: &mut [u8]) {
                self.0.process(input, out)
            }
            fn process_mut(&mut self, d: &mut [u8]) {
                self.0.process_mut(d)
            }
            fn fork(&self) -> Box<dyn StreamObj> {
                Box::new($w::<R>(self.0.clone()))
            }
            fn seek(&mut self, n: u32) {
                self.0.seek(n)
            }
            #[cfg(feature = "hooks")]
            fn counter(&self) -> Option<u64> {
                Some(self.0.verif_block_counter() as u64)
            }
            #[cfg(not(feature = "hooks"))]
            fn counter(&self) -> Option<u64> {
                None
            }
        }
    };
}
macro_rules! hooked {
    ($w:ident, $t:ident) => {
        pub struct $w<const R: usize>(pub $t<R>);
        impl<const R: usize> StreamObj for $w<R> {
            fn process(&mut self, input: &[u8], out: &mut [u8]) {
                self.0.process(input, out)
            }
            fn process_mut(&mut self, d: &mut [u8]) {
                self.0.process_mut(d)
            }
            fn fork(&self) -> Box<dyn StreamObj> {
                Box::new($w::<R>(self.0.clone()))
            }
            #[cfg(feature = "hooks")]
            fn set_counter64(&mut self, n: u64) {
                self.0.verif_set_block_counter(n)
            }
            #[cfg(feature = "hooks")]
            fn counter(&self) -> Option<u64> {
                Some(self.0.verif_block_counter())
            }
            #[cfg(not(feature = "hooks"))]
            fn counter(&self) -> Option<u64> {
                None
            }
        }
    };
}
seekable!(WChaCha, ChaCha);
seekable!(WXChaCha, XChaCha);
hooked!(WChaChaOrig, ChaChaOriginal);
hooked!(WSalsa, Salsa);
hooked!(WXSalsa, XSalsa);

/// The harness's own copy of the 64-byte buffering loop of chacha20.rs, generic over the engine,
/// so that the portable engine (and the active one) can be driven through hook H3 on any target.
pub trait Engine: Clone {
    fn e_init(key: &[u8], nonce: &[u8]) -> Self;
    fn e_rounds(&mut self);
    fn e_add_back(&mut self, i: &Self);
    fn e_set_counter(&mut self, c: u32);
    fn e_set_counter64(&mut self, c: u64);
    fn e_counter64(&self) -> u64;
    fn e_increment(&mut self);
    fn e_increment64(&mut self);
    fn e_output(&self, out: &mut [u8]);
    fn e_output_ad(&self, out: &mut [u8; 32]);
}

macro_rules! engine_impl {
    ($t:ident) => {
        impl<const R: usize> Engine for $t<R> {
            fn e_init(key: &[u8], nonce: &[u8]) -> Self {
                $t::<R>::init(key, nonce)
            }
            fn e_rounds(&mut self) {
                self.rounds()
            }
            fn e_add_back(&mut self, i: &Self) {
                self.add_back(i)
            }
            fn e_set_counter(&mut self, c: u32) {
                self.set_counter(c)
            }
            fn e_set_counter64(&mut self, c: u64) {
                self.set_counter64(c)
            }
            fn e_counter64(&self) -> u64 {
                self.counter64()
            }
            fn e_increment(&mut self) {
                self.increment()
            }
            fn e_increment64(&mut self) {
                self.increment64()
            }
            fn e_output(&self, out: &mut [u8]) {
                self.output_bytes(out)
            }
            fn e_output_ad(&self, out: &mut [u8; 32]) {
                self.output_ad_bytes(out)
            }
        }
    };
}
#[cfg(feature = "hooks")]
engine_impl!(PortableEngine);
#[cfg(feature = "hooks")]
engine_impl!(ActiveEngine);

#[derive(Clone)]
pub struct EngineStream<E: Engine> {
    state: E,
    output: [u8; 64],
    offset: usize,
    wide: bool,
}

impl<E: Engine> EngineStream<E> {
    pub fn new(f: Family, key: &[u8], nonce: &[u8]) -> Self {
        let (state, wide) = match f {
            Family::ChaChaIetf => (E::e_init(key, nonce), false),
            Family::ChaChaOriginal => (E::e_init(key, nonce), true),
            Family::XChaCha => {
                let mut h = E::e_init(key, &nonce[0..16]);
                h.e_rounds();
                let mut sub = [0u8; 32];
                h.e_output_ad(&mut sub);
                (E::e_init(&sub, &nonce[16..24]), false)
            }
            _ => unreachable!(),
        };
        EngineStream { state, output: [0; 64], offset: 64, wide }
    }
    fn refill(&mut self) {
        let mut s = self.state.clone();
        s.e_rounds();
        s.e_add_back(&self.state);
        s.e_output(&mut self.output);
        if self.wide {
            self.state.e_increment64();
        } else {
            self.state.e_increment();
        }
        self.offset = 0;
    }
}

impl<E: Engine + 'static> StreamObj for EngineStream<E> {
    fn process_mut(&mut self, d: &mut [u8]) {
        let mut i = 0;
        while i < d.len() {
            if self.offset == 64 {
                self.refill();
            }
            let n = (64 - self.offset).min(d.len() - i);
            for j in 0..n {
                d[i + j] ^= self.output[self.offset + j];
            }
            i += n;
            self.offset += n;
        }
    }
    fn process(&mut self, input: &[u8], out: &mut [u8]) {
        out.copy_from_slice(input);
        self.process_mut(out);
    }
    fn fork(&self) -> Box<dyn StreamObj> {
        Box::new(self.clone())
    }
    fn seek(&mut self, n: u32) {
        self.state.e_set_counter(n);
        self.offset = 64;
    }
    fn set_counter64(&mut self, n: u64) {
        self.state.e_set_counter64(n);
        self.offset = 64;
    }
    fn counter(&self) -> Option<u64> {
        Some(if self.wide { self.state.e_counter64() } else { self.state.e_counter64() & 0xffff_ffff })
    }
}

#[derive(Clone, Copy, PartialEq, Eq, Debug)]
pub enum Impl {
    /// the public context type
    Context,
    /// PortableEngine driven through the harness's buffering loop
    Portable,
    /// ActiveEngine driven through the harness's buffering loop
    Active,
}

#[derive(Clone, Copy, Debug)]
pub struct StreamVariant {
    pub name: &'static str,
    pub family: Family,
    pub imp: Impl,
}

pub const STREAM_VARIANTS: &[StreamVariant] = &[
    StreamVariant { name: "chacha", family: Family::ChaChaIetf, imp: Impl::Context },
    StreamVariant { name: "xchacha", family: Family::XChaCha, imp: Impl::Context },
    StreamVariant { name: "chacha_original", family: Family::ChaChaOriginal, imp: Impl::Context },
    StreamVariant { name: "salsa", family: Family::Salsa, imp: Impl::Context },
    StreamVariant { name: "xsalsa", family: Family::XSalsa, imp: Impl::Context },
    StreamVariant { name: "portable_chacha", family: Family::ChaChaIetf, imp: Impl::Portable },
    StreamVariant { name: "portable_xchacha", family: Family::XChaCha, imp: Impl::Portable },
    StreamVariant { name: "portable_chacha_original", family: Family::ChaChaOriginal, imp: Impl::Portable },
    StreamVariant { name: "active_chacha", family: Family::ChaChaIetf, imp: Impl::Active },
    StreamVariant { name: "active_chacha_original", family: Family::ChaChaOriginal, imp: Impl::Active },
];

pub fn stream_variant(name: &str) -> Option<StreamVariant> {
    STREAM_VARIANTS.iter().copied().find(|v| v.name == name)
}

/// can this variant be exercised in this build? (engine variants and counter presets need the hooks)
pub fn available(v: &StreamVariant) -> bool {
    HOOKS || v.imp == Impl::Context
}

pub fn has_seek(v: &StreamVariant) -> bool {
    matches!(v.family, Family::ChaChaIetf | Family::XChaCha)
}

/// rounds must be 8, 12 or 20; key 16 or 32 bytes (32 for the X variants)
pub fn make_stream(v: &StreamVariant, rounds: usize, key: &[u8], nonce: &[u8]) -> Box<dyn StreamObj> {
    macro_rules! by_rounds {
        ($mk:ident) => {
            match rounds {
                8 => $mk!(8),
                12 => $mk!(12),
                _ => $mk!(20),
            }
        };
    }
    use core::convert::TryInto;
    match (v.imp, v.family) {
        (Impl::Context, Family::ChaChaIetf) => {
            macro_rules! mk {
                ($r:literal) => {
                    Box::new(WChaCha::<$r>(ChaCha::<$r>::new(key, nonce.try_into().unwrap())))
                };
            }
            by_rounds!(mk)
        }
        (Impl::Context, Family::XChaCha) => {
            macro_rules! mk {
                ($r:literal) => {
                    Box::new(WXChaCha::<$r>(XChaCha::<$r>::new(key.try_into().unwrap(), nonce.try_into().unwrap())))
                };
            }
            by_rounds!(mk)
        }
        (Impl::Context, Family::ChaChaOriginal) => {
            macro_rules! mk {
                ($r:literal) => {
                    Box::new(WChaChaOrig::<$r>(ChaChaOriginal::<$r>::new(key, nonce.try_into().unwrap())))
                };
            }
            by_rounds!(mk)
        }
        (Impl::Context, Family::Salsa) => {
            macro_rules! mk {
                ($r:literal) => {
                    Box::new(WSalsa::<$r>(Salsa::<$r>::new(key, nonce.try_into().unwrap())))
                };
            }
            by_rounds!(mk)
        }
        (Impl::Context, Family::XSalsa) => {
            macro_rules! mk {
                ($r:literal) => {
                    Box::new(WXSalsa::<$r>(XSalsa::<$r>::new(key.try_into().unwrap(), nonce.try_into().unwrap())))
                };
            }
            by_rounds!(mk)
        }
        #[cfg(not(feature = "hooks"))]
        (Impl::Portable, _) | (Impl::Active, _) => panic!("engine variants need the verif-hooks build"),
        #[cfg(feature = "hooks")]
        (Impl::Portable, f) => {
            macro_rules! mk {
                ($r:literal) => {
                    Box::new(EngineStream::<PortableEngine<$r>>::new(f, key, nonce))
                };
            }
            by_rounds!(mk)
        }
        #[cfg(feature = "hooks")]
        (Impl::Active, f) => {
            macro_rules! mk {
                ($r:literal) => {
                    Box::new(EngineStream::<ActiveEngine<$r>>::new(f, key, nonce))
                };
            }
            by_rounds!(mk)
        }
    }
}

pub const ROUNDS: [usize; 3] = [8, 12, 20];
