//! C04 (stream ciphers) — output depends only on key, nonce, absolute position and input:
//! any partition into process / process_mut calls, involution, fork, seek from mid-block.
//!
//! Oracle is self-referential on purpose (a wrong-but-consistent cipher is C03's business):
//! the reference stream is ONE `process` call on a fresh context from block 0; far seeks are
//! checked against a fresh context seeked to the same block plus adjacent-seek consistency.

use crate::guard::guarded;
use crate::model::chacha::Family;
use crate::rng::{data, Aligned, Rng};
use crate::scn::ctrjump::{gen_stream_params, stream_len, stream_params, StreamParams};
use crate::scn::streams::*;
use crate::trace::{Obs, Op, Scenario, Tier, Trace, Violation};
use std::collections::BTreeMap;

pub const K_PROCESS: u8 = 0;
pub const K_PROCESS_MUT: u8 = 1;
pub const K_FORK: u8 = 2;
pub const K_SEEK: u8 = 3;
pub const K_TWICE: u8 = 4;
pub const K_REFUSED: u8 = 5; // process() with an output buffer of another length: refused, the history goes on from the same position
const KINDS: &[&str] = &["process", "process_mut", "fork", "seek", "apply_twice", "refused_call"];

pub struct StreamPos;

struct Reference<'a> {
    sp: &'a StreamParams,
    cache0: Vec<u8>,
    far: BTreeMap<u64, [u8; 64]>,
}

impl<'a> Reference<'a> {
    fn new(sp: &'a StreamParams, blocks: usize) -> Result<Self, String> {
        let n = blocks * 64;
        let zeros = vec![0u8; n];
        let mut out = vec![0u8; n];
        let sp2 = sp;
        guarded(|| {
            let mut fresh = make_stream(&sp2.v, sp2.rounds, &sp2.key, &sp2.nonce);
            fresh.process(&zeros, &mut out);
        })?;
        Ok(Reference { sp, cache0: out, far: BTreeMap::new() })
    }
    /// keystream block at absolute index b, per the library's own fresh-context path
    fn block(&mut self, b: u64, step: usize, obs: &mut Obs) -> Result<[u8; 64], Violation> {
        if ((b as usize) + 1) * 64 <= self.cache0.len() && b < (1 << 30) {
            let mut r = [0u8; 64];
            r.copy_from_slice(&self.cache0[b as usize * 64..b as usize * 64 + 64]);
            return Ok(r);
        }
        if let Some(x) = self.far.get(&b) {
            return Ok(*x);
        }
        // far block: fresh context, seek, one call of two blocks; adjacent-seek consistency
        obs.hit("oracle.adjacent_seek_consistency");
        let sp = self.sp;
        let two = guarded(|| {
            let mut fresh = make_stream(&sp.v, sp.rounds, &sp.key, &sp.nonce);
            fresh.seek(b as u32);
            let mut out = [0u8; 128];
            fresh.process(&[0u8; 128], &mut out);
            out
        })
        .map_err(|m| Violation::new("unexpected-panic", step, "seek+process on a fresh context", m, sp.v.name))?;
        let nb = b.wrapping_add(1) & 0xffff_ffff;
        let next: [u8; 64] = if ((nb as usize) + 1) * 64 <= self.cache0.len() {
            let mut r = [0u8; 64];
            r.copy_from_slice(&self.cache0[nb as usize * 64..nb as usize * 64 + 64]);
            r
        } else {
            guarded(|| {
                let mut fresh = make_stream(&sp.v, sp.rounds, &sp.key, &sp.nonce);
                fresh.seek(nb as u32);
                let mut out = [0u8; 64];
                fresh.process(&[0u8; 64], &mut out);
                out
            })
            .map_err(|m| Violation::new("unexpected-panic", step, "seek+process on a fresh context", m, sp.v.name))?
        };
        if two[64..] != next[..] {
            return Err(Violation::bytes("seek-inconsistent", step, &next, &two[64..], format!("{}: second block after seek({:#x}) differs from first block after seek({:#x})", sp.v.name, b, nb)));
        }
        let mut r = [0u8; 64];
        r.copy_from_slice(&two[..64]);
        self.far.insert(b, r);
        Ok(r)
    }
    fn bytes(&mut self, blk: u64, off: usize, len: usize, mask: u64, step: usize, obs: &mut Obs) -> Result<Vec<u8>, Violation> {
        let mut out = Vec::with_capacity(len);
        let mut b = blk;
        let mut o = off;
        while out.len() < len {
            let bl = self.block(b, step, obs)?;
            let take = (64 - o).min(len - out.len());
            out.extend_from_slice(&bl[o..o + take]);
            o = 0;
            b = b.wrapping_add(1) & mask;
        }
        Ok(out)
    }
}

struct Handle {
    obj: Box<dyn StreamObj>,
    blk: u64,
    off: usize,
    /// a call on this object was refused loudly earlier (position unchanged by it); later calls may fail loudly too
    refused: bool,
    /// it did fail loudly after a refusal: nothing more is asked of it
    dead: bool,
}

fn seek_target(rng: &mut Rng) -> u64 {
    // every carry position of the 32-bit counter: 2^k - d
    if rng.chance(1, 8) {
        let k = rng.range(1, 31);
        return (1u64 << k) - rng.below(3);
    }
    match rng.below(10) {
        0 => 0,
        1 => 1,
        2 => 2,
        3 | 4 => rng.below(64),
        5 => 0xffff_ffff,
        6 => 0xffff_fffe,
        7 => rng.range(64, 2048),
        _ => rng.next_u64() & 0xffff_ffff,
    }
}

impl Scenario for StreamPos {
    fn name(&self) -> &'static str {
        "streampos"
    }
    fn kinds(&self) -> &'static [&'static str] {
        KINDS
    }
    fn nontrivial_kind(&self, k: u8) -> bool {
        k >= K_FORK
    }
    fn real_vs_stub(&self) -> &'static str {
        "real: ChaCha/XChaCha/ChaChaOriginal/Salsa/XSalsa contexts (new, process, process_mut, clone, seek); stub: scheduler/PRNG, position model, dirty destination buffers (harness side)"
    }
    fn cover_rule(&self) -> &'static str {
        "(variant, op kind, offset-in-block class before the op {0,1,63,other}, end class after the op {on boundary, 1 short, other})"
    }
    fn generate(&self, rng: &mut Rng, _idx: u64, tier: Tier) -> Trace {
        let v = STREAM_VARIANTS[rng.below(5) as usize];
        let mut t = Trace::new("streampos", v.name);
        gen_stream_params(rng, &mut t, &v);
        let max_handles = rng.range(1, 4) as usize;
        let nops = if rng.chance(1, 300) { rng.range(300, 700) } else { rng.range(3, if tier == Tier::Thorough { 40 } else { 24 }) };
        let mut w = [10u32, 10, 0, 0, 0, 0];
        if rng.chance(1, 4) {
            w[K_REFUSED as usize] = 1; // misuse-injecting configuration
        }
        if rng.chance(2, 3) {
            w[K_FORK as usize] = 2;
        }
        if has_seek(&v) && rng.chance(2, 3) {
            w[K_SEEK as usize] = 3;
        }
        if rng.chance(1, 2) {
            w[K_TWICE as usize] = 2;
        }
        let mut handles = 1usize;
        let mut offs = vec![0usize];
        for _ in 0..nops {
            let h = rng.below(handles as u64) as usize;
            let mut k = rng.weighted(&w) as u8;
            if k == K_FORK && handles >= max_handles {
                k = K_PROCESS;
            }
            match k {
                K_FORK => {
                    t.ops.push(Op::new(h as u8, K_FORK));
                    offs.push(offs[h]);
                    handles += 1;
                }
                K_SEEK => {
                    t.ops.push(Op::new(h as u8, K_SEEK).arg(seek_target(rng)));
                    offs[h] = 0;
                }
                K_REFUSED => {
                    t.ops.push(Op::new(h as u8, K_REFUSED).len(stream_len(rng).min(300)).arg(rng.below(4)).seed(rng.data_seed()));
                }
                _ => {
                    let len = stream_len(rng);
                    let seed = match rng.below(4) { 0 => 0, _ => rng.data_seed() };
                    t.ops.push(Op::new(h as u8, k).len(len).seed(seed).off(rng.below(32) as u8));
                    offs[h] = (offs[h] + len) % 64;
                    // fault placement: seek right after a mid-block stop
                    if offs[h] != 0 && w[K_SEEK as usize] > 0 && rng.chance(1, 4) {
                        t.ops.push(Op::new(h as u8, K_SEEK).arg(seek_target(rng)));
                        offs[h] = 0;
                    }
                }
            }
        }
        t
    }

    fn execute(&self, t: &Trace, obs: &mut Obs) -> Result<(), Violation> {
        let sp = match stream_params(t) {
            Some(x) if x.v.imp == Impl::Context => x,
            _ => return Ok(()),
        };
        let f = sp.v.family;
        let seekable = has_seek(&sp.v);
        let mask: u64 = if f.counter_bits() == 32 { 0xffff_ffff } else { u64::MAX };
        let vi = STREAM_VARIANTS.iter().position(|x| x.name == sp.v.name).unwrap() as u32;
        // size of the one-call reference stream: everything reachable without a far seek
        let total: usize = t.ops.iter().map(|o| (o.len as usize).min(300_000)).sum();
        let maxseek: u64 = t.ops.iter().filter(|o| o.k == K_SEEK).map(|o| o.arg & 0xffff_ffff).filter(|a| *a < 2048).max().unwrap_or(0);
        let blocks = (total / 64 + 3 + maxseek as usize).min(400_000);
        let mut reference = Reference::new(&sp, blocks).map_err(|m| Violation::new("unexpected-panic", 0, "one-call reference stream", m, sp.v.name))?;
        let first = guarded(|| make_stream(&sp.v, sp.rounds, &sp.key, &sp.nonce)).map_err(|m| Violation::new("unexpected-panic", 0, "context constructed", m, sp.v.name))?;
        let mut hs: Vec<Handle> = vec![Handle { obj: first, blk: 0, off: 0, refused: false, dead: false }];

        for (i, op) in t.ops.iter().enumerate() {
            let h = op.h as usize;
            if h >= hs.len() {
                continue;
            }
            obs.begin_op(i);
            if hs[h].dead {
                continue;
            }
            match op.k {
                K_REFUSED => {
                    // process() with mismatched buffer lengths (one shorter / one longer / empty input / empty output)
                    let n = (op.len as usize).clamp(1, 300);
                    let (il, ol) = match op.arg % 4 { 0 => (n, n - 1), 1 => (n, n + 1), 2 => (0, 1), _ => (1, 0) };
                    let input = data(op.seed, il);
                    let mut out = data(op.seed ^ 0x99, ol);
                    obs.hit("fault.call_refused_then_history_continued");
                    let hd = &mut hs[h];
                    match guarded(|| hd.obj.process(&input, &mut out)) {
                        Err(_) => hd.refused = true,
                        Ok(()) => return Err(Violation::new("missing-refusal", i, "loud failure (panic)", "returned normally", format!("{}: process() accepted an input of {} bytes with an output buffer of {} bytes", sp.v.name, il, ol))),
                    }
                }
                K_FORK => {
                    if hs.len() >= 8 {
                        continue;
                    }
                    obs.hit("fault.fork_midstream");
                    if hs[h].off != 0 {
                        obs.hit("probe.fork_with_partially_consumed_block");
                    }
                    let o2 = guarded(|| hs[h].obj.fork()).map_err(|m| Violation::new("unexpected-panic", i, "clone", m, sp.v.name))?;
                    let (b, o) = (hs[h].blk, hs[h].off);
                    let (rf, dd) = (hs[h].refused, hs[h].dead);
                    hs.push(Handle { obj: o2, blk: b, off: o, refused: rf, dead: dd });
                }
                K_SEEK => {
                    if !seekable {
                        continue;
                    }
                    obs.hit("fault.seek");
                    if hs[h].off != 0 {
                        obs.hit("probe.seek_from_mid_block");
                    }
                    let n = (op.arg & 0xffff_ffff) as u32;
                    let hd = &mut hs[h];
                    guarded(|| hd.obj.seek(n)).map_err(|m| Violation::new("unexpected-panic", i, "seek", m, sp.v.name))?;
                    hd.blk = n as u64;
                    hd.off = 0;
                }
                K_PROCESS | K_PROCESS_MUT | K_TWICE => {
                    let len = (op.len as usize).min(300_000);
                    let input = Aligned::new(op.seed, len, (op.off % 32) as usize);
                    let (blk, off) = (hs[h].blk, hs[h].off);
                    let ks = reference.bytes(blk, off, len, mask, i, obs)?;
                    let want: Vec<u8> = input.get().iter().zip(ks.iter()).map(|(a, b)| a ^ b).collect();
                    let sibling = if op.k == K_TWICE { Some(guarded(|| hs[h].obj.fork()).map_err(|m| Violation::new("unexpected-panic", i, "clone", m, sp.v.name))?) } else { None };
                    let hd = &mut hs[h];
                    let got: Vec<u8> = if op.k == K_PROCESS_MUT {
                        let mut buf = Aligned::holding(input.get(), op.seed ^ 0x3131);
                        match guarded(|| hd.obj.process_mut(buf.get_mut())) {
                            Ok(()) => {}
                            Err(_) if hd.refused => {
                                obs.hit("observed.loud_failure_after_an_earlier_refusal");
                                hd.dead = true;
                                continue;
                            }
                            Err(m) => return Err(Violation::new("unexpected-panic", i, "process_mut", m, sp.v.name)),
                        }
                        buf.to_vec()
                    } else {
                        obs.hit("fault.dirty_destination");
                        let mut out = Aligned::dirty(op.seed ^ 0x7777, len);
                        match guarded(|| hd.obj.process(input.get(), out.get_mut())) {
                            Ok(()) => {}
                            Err(_) if hd.refused => {
                                obs.hit("observed.loud_failure_after_an_earlier_refusal");
                                hd.dead = true;
                                continue;
                            }
                            Err(m) => return Err(Violation::new("unexpected-panic", i, "process", m, sp.v.name)),
                        }
                        out.to_vec()
                    };
                    obs.out(&got);
                    let tot = off + len;
                    let offc = match off { 0 => 0, 1 => 1, 63 => 2, _ => 3 };
                    let endc = match tot % 64 { 0 => 0, 63 => 1, _ => 2 };
                    obs.cov((vi << 16) | ((op.k as u32) << 8) | (offc << 4) | endc);
                    if len > 0 && (blk & 0xffff_ffff) + ((tot as u64 - 1) / 64) > 0xffff_ffff && seekable {
                        obs.hit("probe.position_wrapped_past_2^32_blocks");
                    }
                    if got != want {
                        let firstbad = got.iter().zip(want.iter()).position(|(a, b)| a != b).unwrap_or(0);
                        return Err(Violation::bytes("stream-mismatch", i, &want, &got, format!("{} R={}: {} bytes at block {:#x}+{} differ from the one-call stream of a fresh context (first at byte {})", sp.v.name, sp.rounds, len, blk, off, firstbad)));
                    }
                    hd.blk = blk.wrapping_add((tot / 64) as u64) & mask;
                    hd.off = tot % 64;
                    obs.pos(hd.blk);
                    if let Some(mut sib) = sibling {
                        obs.hit("oracle.involution");
                        let mut back = got.clone();
                        guarded(|| sib.process_mut(&mut back)).map_err(|m| Violation::new("unexpected-panic", i, "process_mut (second application)", m, sp.v.name))?;
                        obs.out(&back);
                        if back != input.get() {
                            return Err(Violation::bytes("involution-failed", i, input.get(), &back, format!("{}: applying the cipher twice at the same position did not restore the input", sp.v.name)));
                        }
                    }
                }
                _ => {}
            }
        }
        // end of run: every live handle continues identically from its model position (fork check)
        let n = t.ops.len();
        for (hi, hd) in hs.iter_mut().enumerate() {
            if hd.dead {
                continue;
            }
            let ks = reference.bytes(hd.blk, hd.off, 96, mask, n, obs)?;
            let mut buf = [0u8; 96];
            match guarded(|| hd.obj.process_mut(&mut buf)) {
                Ok(()) => {}
                Err(_) if hd.refused => continue,
                Err(m) => return Err(Violation::new("unexpected-panic", n, "process_mut", m, sp.v.name)),
            }
            obs.out(&buf);
            if buf[..] != ks[..] {
                return Err(Violation::bytes("stream-mismatch", n, &ks, &buf, format!("{}: end-of-run continuation of handle {} at block {:#x}+{}", sp.v.name, hi, hd.blk, hd.off)));
            }
        }
        Ok(())
    }
}
