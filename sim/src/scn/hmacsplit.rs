//! C08 — HMAC equals RFC 2104 for every legacy digest, key length class and split.
//!
//! Delivery dimension: any fragmentation of the message over `input` calls, result or
//! raw_result into a dirty buffer. Oracle: H((K' ^ opad) || H((K' ^ ipad) || m)) composed in the
//! harness with H = the STANDARD digest (independent implementations in model::digests, written
//! from FIPS 180-4 / FIPS 202 / RIPEMD-160 / RFC 7693) and the block size written down from the
//! standards (not read from the object); output_bytes() must equal the digest size. A mismatch
//! report says whether the library's own one-call hash would have explained the tag (then the
//! digest itself deviates from the standard) or not (then the HMAC construction does).

use crate::guard::guarded;
use crate::rng::{data, Aligned, Rng};
use crate::scn::hashctx;
use crate::scn::macs::*;
use crate::trace::{Obs, Op, Scenario, Tier, Trace, Violation};

pub const K_INPUT: u8 = 0;
pub const K_RESULT: u8 = 1;
const KINDS: &[&str] = &["input", "result"];

pub struct HmacSplit;

pub fn rfc2104(info: &DigestInfo, outlen: usize, key: &[u8], msg: &[u8]) -> Vec<u8> {
    rfc2104_over(info, key, msg, &|m: &[u8]| crate::model::digests::standard(info.hashing, outlen, m))
}

/// the same composition over the library's own one-call hash (diagnosis only: who is to blame for a mismatch)
pub fn rfc2104_over_library_hash(info: &DigestInfo, outlen: usize, key: &[u8], msg: &[u8]) -> Vec<u8> {
    rfc2104_over(info, key, msg, &|m: &[u8]| hashctx::oneshot(info.hashing, outlen, &[], m))
}

fn rfc2104_over(info: &DigestInfo, key: &[u8], msg: &[u8], h: &dyn Fn(&[u8]) -> Vec<u8>) -> Vec<u8> {
    let b = info.spec_block;
    let mut k = vec![0u8; b];
    if key.len() > b {
        let hk = h(key);
        k[..hk.len()].copy_from_slice(&hk);
    } else {
        k[..key.len()].copy_from_slice(key);
    }
    let mut inner: Vec<u8> = k.iter().map(|x| x ^ 0x36).collect();
    inner.extend_from_slice(msg);
    let ih = h(&inner);
    let mut outer: Vec<u8> = k.iter().map(|x| x ^ 0x5c).collect();
    outer.extend_from_slice(&ih);
    h(&outer)
}

fn key_len_class(class: u64, b: usize, rng_extra: u64) -> usize {
    match class {
        0 => 0,
        1 => 1,
        2 => b - 1,
        3 => b,
        4 => b + 1,
        5 => 2 * b + 1,
        _ => (rng_extra % (3 * b as u64 + 1)) as usize,
    }
}

impl Scenario for HmacSplit {
    fn name(&self) -> &'static str {
        "hmacsplit"
    }
    fn kinds(&self) -> &'static [&'static str] {
        KINDS
    }
    fn nontrivial_kind(&self, k: u8) -> bool {
        // a split message (>= 2 ops) ending in an explicit result
        k == K_RESULT
    }
    fn nontrivial(&self, t: &Trace) -> bool {
        // the message reaches the object in >= 2 fragments of which at least one is non-empty
        t.ops.iter().filter(|o| o.k == K_INPUT).count() >= 2 && t.ops.iter().any(|o| o.k == K_INPUT && o.len > 0)
    }
    fn stratified(&self) -> u64 {
        // digest x key-length class x 6 message shapes
        DIGESTS.len() as u64 * 7 * 6
    }
    fn real_vs_stub(&self) -> &'static str {
        "real: hmac::Hmac<D> over all 18 legacy digest objects (new, input, result, raw_result, output_bytes), Digest::block_size/output_bytes; stub: scheduler/PRNG, RFC 2104 composition over independent implementations of the 18 standard digests (model::digests) and the table of specified block sizes (harness side)"
    }
    fn cover_rule(&self) -> &'static str {
        "(digest, key-length class {0,1,B-1,B,B+1,2B+1,random}, fragment class relative to the digest's block after the ipad block)"
    }
    fn generate(&self, rng: &mut Rng, idx: u64, _tier: Tier) -> Trace {
        let (d, class, shape) = if idx < self.stratified() {
            (DIGESTS[(idx % DIGESTS.len() as u64) as usize], (idx / DIGESTS.len() as u64) % 7, Some(idx / (DIGESTS.len() as u64 * 7)))
        } else {
            (*rng.pick(DIGESTS), rng.below(7), None)
        };
        let mut t = Trace::new("hmacsplit", d.name);
        let b = d.spec_block;
        if d.max_out > 0 {
            t.set_p("outlen", if shape.is_some() { d.max_out as u64 } else { rng.range(1, d.max_out as u64) });
        }
        t.set_p("key_class", class);
        t.set_p("key_extra", rng.next_u64());
        t.set_p("key_seed", match rng.below(8) { 0 => 0, 1 => 1, _ => rng.data_seed() });
        match shape {
            Some(s) => {
                let lens: &[usize] = match s {
                    0 => &[],
                    1 => &[1],
                    2 => &[b],
                    3 => &[b - 1, 1],
                    4 => &[1, 2 * b],
                    _ => &[0, b + 1, 0, b - 1],
                };
                for (j, l) in lens.iter().enumerate() {
                    t.ops.push(Op::new(0, K_INPUT).len(*l).seed(900 + j as u64 + idx));
                }
                t.ops.push(Op::new(0, K_RESULT).off((idx & 1) as u8));
            }
            None => {
                let nops = if rng.chance(1, 300) { rng.range(300, 700) } else { rng.range(0, 12) };
                let mut fill = 0usize;
                let tiny = rng.chance(1, 8);
                for _ in 0..nops {
                    let len = if tiny { rng.below(4) as usize } else if rng.chance(1, 500) { hashctx::big_len(rng, false) } else { hashctx::chunk_len(rng, b, fill, false).min(4096) };
                    let dseed = match rng.below(16) { 0 => 0, 1 => 1, _ => rng.data_seed() };
                    t.ops.push(Op::new(0, K_INPUT).len(len).seed(dseed).off(rng.below(32) as u8));
                    fill += len;
                }
                t.ops.push(Op::new(0, K_RESULT).off(rng.below(2) as u8));
            }
        }
        t
    }

    fn execute(&self, t: &Trace, obs: &mut Obs) -> Result<(), Violation> {
        let info = match digest_info(&t.variant) {
            Some(i) => i,
            None => return Ok(()),
        };
        let di = DIGESTS.iter().position(|d| d.name == info.name).unwrap() as u32;
        let outlen = if info.max_out > 0 { (t.p("outlen") as usize).clamp(1, info.max_out) } else { 0 };
        let out_size = if info.spec_out > 0 { info.spec_out } else { outlen };
        let class = t.p("key_class").min(6);
        let klen = key_len_class(class, info.spec_block, t.p("key_extra"));
        let key = data(t.p("key_seed"), klen);
        let name = info.name;
        // reported sizes: the object's own statements about itself
        let (rb, ro) = guarded(|| digest_reported(name, outlen)).map_err(|m| Violation::new("unexpected-panic", 0, "digest constructed", m, name))?;
        if ro != out_size {
            return Err(Violation::new("size-mismatch", 0, format!("{}", out_size), format!("{}", ro), format!("{}: Digest::output_bytes", name)));
        }
        if rb != info.spec_block {
            return Err(Violation::new("size-mismatch", 0, format!("{}", info.spec_block), format!("{}", rb), format!("{}: Digest::block_size differs from the specified block size", name)));
        }
        let mut mac = guarded(|| make_hmac(name, outlen, &key)).map_err(|m| Violation::new("unexpected-panic", 0, "Hmac::new", m, name))?;
        if mac.out_len() != out_size {
            return Err(Violation::new("size-mismatch", 0, format!("{}", out_size), format!("{}", mac.out_len()), format!("hmac_{}: output_bytes differs from the digest size", name)));
        }
        let mut log: Vec<u8> = Vec::new();
        let mut finished = false;
        for (i, op) in t.ops.iter().enumerate() {
            obs.begin_op(i);
            match op.k {
                K_INPUT => {
                    if finished {
                        continue;
                    }
                    let len = (op.len as usize).min(300_000);
                    let a = Aligned::new(op.seed, len, (op.off % 32) as usize);
                    obs.cov((di << 8) | ((class as u32) << 4) | hashctx::chunk_class(len, log.len(), info.spec_block));
                    if len == 0 {
                        obs.hit("fault.empty_fragment");
                    }
                    guarded(|| mac.input(a.get())).map_err(|m| Violation::new("unexpected-panic", i, "input accepted", m, name))?;
                    log.extend_from_slice(a.get());
                    obs.pos(log.len() as u64);
                }
                K_RESULT => {
                    if finished {
                        continue;
                    }
                    finished = true;
                    let raw = op.off & 1 == 1;
                    if raw {
                        obs.hit("fault.dirty_destination");
                    }
                    if klen > info.spec_block {
                        obs.hit("probe.key_longer_than_block_hashed");
                    }
                    if klen == info.spec_block {
                        obs.hit("probe.key_exactly_one_block");
                    }
                    let got = guarded(|| mac.result(raw)).map_err(|m| Violation::new("unexpected-panic", i, "result", m, name))?;
                    obs.out(&got);
                    let want = rfc2104(&info, outlen, &key, &log);
                    if got != want {
                        let blame = match guarded(|| rfc2104_over_library_hash(&info, outlen, &key, &log)) {
                            Ok(l) if l == got => "the library's one-call hash explains the tag: the digest itself deviates from the standard",
                            _ => "not explained by the library's one-call hash either: the HMAC construction deviates",
                        };
                        return Err(Violation::bytes("tag-mismatch", i, &want, &got, format!("hmac_{}: key {} bytes, message {} bytes vs RFC 2104 over the standard digest ({})", name, klen, log.len(), blame)));
                    }
                }
                _ => {}
            }
        }
        if !finished {
            let n = t.ops.len();
            let got = guarded(|| mac.result(false)).map_err(|m| Violation::new("unexpected-panic", n, "result", m, name))?;
            obs.out(&got);
            let want = rfc2104(&info, outlen, &key, &log);
            if got != want {
                let blame = match guarded(|| rfc2104_over_library_hash(&info, outlen, &key, &log)) {
                    Ok(l) if l == got => "the library's one-call hash explains the tag: the digest itself deviates from the standard",
                    _ => "not explained by the library's one-call hash either: the HMAC construction deviates",
                };
                return Err(Violation::bytes("tag-mismatch", n, &want, &got, format!("hmac_{}: key {} bytes, message {} bytes vs RFC 2104 over the standard digest ({})", name, klen, log.len(), blame)));
            }
        }
        Ok(())
    }
}
