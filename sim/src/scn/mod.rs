pub mod aead;
pub mod ctprobe;
pub mod ctrjump;
pub mod drg;
pub mod hashctx;
pub mod hmacsplit;
pub mod lifecycle;
pub mod macs;
pub mod polysplit;
pub mod robust;
pub mod sigchannel;
pub mod streampos;
pub mod streams;
pub mod xbuild;
pub mod xcurve;

use crate::trace::Scenario;

pub fn all() -> Vec<&'static dyn Scenario> {
    vec![
        &hashctx::HashCtx,
        &ctrjump::CtrJump,
        &streampos::StreamPos,
        &drg::DrgScn,
        &polysplit::PolySplit,
        &aead::AeadFlow,
        &aead::AeadTamper,
        &hmacsplit::HmacSplit,
        &lifecycle::Lifecycle,
        &sigchannel::SigChannel,
        &xbuild::HashBulk,
        &xbuild::EngLock,
        &xbuild::KdfProbe,
        &xcurve::X25519Hs,
        &xcurve::ArithProg,
        &robust::CtrWrap,
        &robust::Misuse,
        &robust::LenWrap,
        &robust::ValidEdge,
        &ctprobe::CtProbe,
    ]
}

pub fn by_name(n: &str) -> Option<&'static dyn Scenario> {
    all().into_iter().find(|s| s.name() == n)
}
