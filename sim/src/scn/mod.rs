pub mod hashctx;

use crate::trace::Scenario;

pub fn all() -> Vec<&'static dyn Scenario> {
    vec![&hashctx::HashCtx]
}

pub fn by_name(n: &str) -> Option<&'static dyn Scenario> {
    all().into_iter().find(|s| s.name() == n)
}
