//! C14 (partial) — a signature across a hostile channel.
//!
//! Signer -> channel -> verifier. The channel applies, in turn, every entry of a catalogue to the
//! honest (message, public key, signature) triple; a Byzantine sender additionally submits
//! small-order-key forgeries whose verdict is fixed by torsion arithmetic alone.
//! Oracle: untouched => accept; every alteration => reject; torsion forgeries => accept unless the
//! key is the all-zero string. No independent curve arithmetic is used (the full "iff the
//! equation" for arbitrary triples is not claimed).

use crate::guard::guarded;
use crate::model::big;
use crate::model::ed25519 as med;
use crate::rng::{data, Rng};
use crate::trace::{Obs, Op, Scenario, Tier, Trace, Violation};
use cryptoxide::ed25519;
use cryptoxide::hashing::sha512;

pub const S_NONE: u8 = 0;
pub const S_SIG_BIT: u8 = 1;
pub const S_PK_BIT: u8 = 2;
pub const S_MSG_BIT: u8 = 3;
pub const S_MSG_TRUNC: u8 = 4;
pub const S_MSG_EXTEND: u8 = 5;
pub const S_PLUS_KL: u8 = 6;
pub const S_OTHER_KEY: u8 = 7;
pub const S_OTHER_SIG: u8 = 8;
pub const S_TORSION: u8 = 9;
pub const S_TORSION_NONCANONICAL_R: u8 = 10;
// entries whose specified verdict comes from the independent Ed25519 model (model::ed25519)
pub const S_MODEL_HONEST: u8 = 11;
pub const S_RANDOM_TRIPLE: u8 = 12;
pub const S_NONPOINT_KEY: u8 = 13;
pub const S_MIXED_ORDER_KEY: u8 = 14;
pub const S_BOUNDARY_S: u8 = 15;
pub const S_SPECIAL_R: u8 = 16;
pub const S_NONCANONICAL_KEY: u8 = 17;
pub const S_CRAFTED_S: u8 = 18;
// honest signer working from an extended secret whose scalar part is NOT clamped (the documented ad-hoc use of
// signature_extended / extended_to_public): what signing produces must verify
pub const S_UNCLAMPED_EXT: u8 = 19;
// special R (identity, torsion points, non-canonical identity encodings, random) TOGETHER with a degenerate S (0, 1,
// 8, L-1, L) under the honest large-order key: the equation cannot hold; judged by the model
pub const S_SPECIAL_R_AND_S: u8 = 20;
// small-order key A together with a small-order component T in R: R = [S]B + T with S = 0 or a boundary scalar, and a
// message searched so that T + h*A = O under both readings of h - a triple that satisfies the equation although neither
// R nor A is the identity (arg = j | k << 3 | s-class << 6)
pub const S_TORSION_PAIR: u8 = 21;
const KINDS: &[&str] = &[
    "deliver_untouched",
    "flip_signature_bit",
    "flip_public_key_bit",
    "flip_message_bit",
    "truncate_message",
    "extend_message",
    "s_plus_k_times_group_order",
    "substitute_other_signers_key",
    "substitute_other_messages_signature",
    "small_order_key_forgery",
    "small_order_key_forgery_with_noncanonical_r",
    "model_check_of_honest_triple",
    "random_triple",
    "non_point_public_key",
    "mixed_order_public_key_signed_by_real_signer",
    "boundary_value_s",
    "special_encoding_r",
    "noncanonical_public_key_encoding",
    "crafted_equation_with_boundary_s",
    "honest_signature_from_unclamped_extended_secret",
    "special_r_with_degenerate_s",
    "small_order_key_with_small_order_r",
];

/// encodings that decode to the identity but are not its canonical 32 bytes:
/// y = p + 1, x = 0 with the sign bit set, and both
pub const NONCANONICAL_IDENTITY: [[u8; 32]; 3] = [
    [0xee, 0xff, 0xff, 0xff, 0xff, 0xff, 0xff, 0xff, 0xff, 0xff, 0xff, 0xff, 0xff, 0xff, 0xff, 0xff, 0xff, 0xff, 0xff, 0xff, 0xff, 0xff, 0xff, 0xff, 0xff, 0xff, 0xff, 0xff, 0xff, 0xff, 0xff, 0x7f],
    [1, 0, 0, 0, 0, 0, 0, 0, 0, 0, 0, 0, 0, 0, 0, 0, 0, 0, 0, 0, 0, 0, 0, 0, 0, 0, 0, 0, 0, 0, 0, 0x80],
    [0xee, 0xff, 0xff, 0xff, 0xff, 0xff, 0xff, 0xff, 0xff, 0xff, 0xff, 0xff, 0xff, 0xff, 0xff, 0xff, 0xff, 0xff, 0xff, 0xff, 0xff, 0xff, 0xff, 0xff, 0xff, 0xff, 0xff, 0xff, 0xff, 0xff, 0xff, 0xff],
];

/// canonical encodings of the 8 points of order dividing 8 (identity, order 2, 2 x order 4, 4 x order 8)
pub const TORSION: [[u8; 32]; 8] = [
    [1, 0, 0, 0, 0, 0, 0, 0, 0, 0, 0, 0, 0, 0, 0, 0, 0, 0, 0, 0, 0, 0, 0, 0, 0, 0, 0, 0, 0, 0, 0, 0],
    [0xec, 0xff, 0xff, 0xff, 0xff, 0xff, 0xff, 0xff, 0xff, 0xff, 0xff, 0xff, 0xff, 0xff, 0xff, 0xff, 0xff, 0xff, 0xff, 0xff, 0xff, 0xff, 0xff, 0xff, 0xff, 0xff, 0xff, 0xff, 0xff, 0xff, 0xff, 0x7f],
    [0; 32],
    [0, 0, 0, 0, 0, 0, 0, 0, 0, 0, 0, 0, 0, 0, 0, 0, 0, 0, 0, 0, 0, 0, 0, 0, 0, 0, 0, 0, 0, 0, 0, 0x80],
    [0x26, 0xe8, 0x95, 0x8f, 0xc2, 0xb2, 0x27, 0xb0, 0x45, 0xc3, 0xf4, 0x89, 0xf2, 0xef, 0x98, 0xf0, 0xd5, 0xdf, 0xac, 0x05, 0xd3, 0xc6, 0x33, 0x39, 0xb1, 0x38, 0x02, 0x88, 0x6d, 0x53, 0xfc, 0x05],
    [0x26, 0xe8, 0x95, 0x8f, 0xc2, 0xb2, 0x27, 0xb0, 0x45, 0xc3, 0xf4, 0x89, 0xf2, 0xef, 0x98, 0xf0, 0xd5, 0xdf, 0xac, 0x05, 0xd3, 0xc6, 0x33, 0x39, 0xb1, 0x38, 0x02, 0x88, 0x6d, 0x53, 0xfc, 0x85],
    [0xc7, 0x17, 0x6a, 0x70, 0x3d, 0x4d, 0xd8, 0x4f, 0xba, 0x3c, 0x0b, 0x76, 0x0d, 0x10, 0x67, 0x0f, 0x2a, 0x20, 0x53, 0xfa, 0x2c, 0x39, 0xcc, 0xc6, 0x4e, 0xc7, 0xfd, 0x77, 0x92, 0xac, 0x03, 0x7a],
    [0xc7, 0x17, 0x6a, 0x70, 0x3d, 0x4d, 0xd8, 0x4f, 0xba, 0x3c, 0x0b, 0x76, 0x0d, 0x10, 0x67, 0x0f, 0x2a, 0x20, 0x53, 0xfa, 0x2c, 0x39, 0xcc, 0xc6, 0x4e, 0xc7, 0xfd, 0x77, 0x92, 0xac, 0x03, 0xfa],
];

pub struct SigChannel;

pub fn msg_len(rng: &mut Rng) -> usize {
    const MENU: [usize; 20] = [0, 1, 47, 48, 63, 64, 65, 79, 80, 95, 96, 97, 111, 112, 128, 175, 176, 191, 192, 193];
    if rng.chance(1, 60) {
        // a long message now and then (several SHA-512 blocks after the prefixes; buffer-size thresholds)
        *rng.pick(&[1000usize, 4031, 4032, 4033, 4096, 8000])
    } else if rng.chance(2, 3) {
        *rng.pick(&MENU)
    } else {
        rng.below(300) as usize
    }
}

fn clamp_extended(seed: &[u8; 32]) -> [u8; 64] {
    let mut h = sha512(seed);
    h[0] &= 248;
    h[31] &= 63;
    h[31] |= 64;
    h
}

pub fn honest(seed: &[u8; 32], msg: &[u8], extended: bool) -> ([u8; 32], [u8; 64]) {
    let (kp, pk0) = ed25519::keypair(seed);
    // the public half as the accessor of the keypair hands it out (every second message length), else as returned
    let pk = if msg.len() % 2 == 1 { *ed25519::keypair_public(&kp) } else { pk0 };
    let sig = if extended { ed25519::signature_extended(msg, &clamp_extended(seed)) } else { ed25519::signature(msg, &kp) };
    (pk, sig)
}

/// first message (of <= 512 candidates) for which both h = 0 mod 8 and (h mod L) = 0 mod 8,
/// with R = enc(identity), so that h*A = O for a torsion A under either reading of "h"
pub fn torsion_message(key: &[u8; 32], mseed: u64) -> Option<Vec<u8>> {
    torsion_message_r(&TORSION[0], key, mseed)
}

/// message for which T + h*A = O, h taken mod 8 and both readings of h (the 512-bit integer, the integer mod L) agreeing
/// mod 8; falls back to the first message on which the readings agree (the equation then fails); `r` is what is hashed
pub fn torsion_pair_message(r: &[u8; 32], t: &[u8; 32], key: &[u8; 32], mseed: u64) -> Option<(Vec<u8>, bool)> {
    // c*A for c = 0..7 by repeated addition in the model, then the residues c that cancel T
    let mut good = [false; 8];
    let mut acc = TORSION[0];
    for c in 0..8 {
        if let Some(sum) = med::add_encoded(&acc, t) {
            good[c] = sum == TORSION[0];
        }
        acc = med::add_encoded(&acc, key)?;
    }
    let mut fallback = None;
    for i in 0..512u64 {
        let m = data(crate::rng::splitmix64(mseed ^ i.wrapping_mul(0x9E3779B97F4A7C15)) | 16, 16);
        let mut pre = Vec::with_capacity(80);
        pre.extend_from_slice(r);
        pre.extend_from_slice(key);
        pre.extend_from_slice(&m);
        let h = crate::model::sha512::sha512(&pre);
        let (c1, c2) = ((h[0] & 7) as usize, (big::mod_l(&h)[0] & 7) as usize);
        if c1 != c2 {
            continue;
        }
        if good[c1] {
            return Some((m, true));
        }
        if fallback.is_none() {
            fallback = Some(m);
        }
    }
    fallback.map(|m| (m, false))
}

/// same search with an arbitrary 32-byte R in the hashed prefix
pub fn torsion_message_r(r: &[u8; 32], key: &[u8; 32], mseed: u64) -> Option<Vec<u8>> {
    let r = *r;
    for i in 0..512u64 {
        let m = data(crate::rng::splitmix64(mseed ^ i.wrapping_mul(0x9E3779B97F4A7C15)) | 16, 16);
        let mut pre = Vec::with_capacity(80);
        pre.extend_from_slice(&r);
        pre.extend_from_slice(key);
        pre.extend_from_slice(&m);
        let h = crate::model::sha512::sha512(&pre); // the specified hash (harness implementation), not the library's
        if h[0] & 7 == 0 && big::mod_l(&h)[0] & 7 == 0 {
            return Some(m);
        }
    }
    None
}

impl SigChannel {
    fn catalogue(&self, rng: &mut Rng, mlen: usize) -> Vec<Op> {
        let mut ops = vec![Op::new(0, S_NONE)];
        for b in 0..512 {
            ops.push(Op::new(0, S_SIG_BIT).arg(b));
        }
        for b in 0..256 {
            ops.push(Op::new(0, S_PK_BIT).arg(b));
        }
        let bits = mlen as u64 * 8;
        if bits > 0 {
            if mlen <= 64 {
                for b in 0..bits {
                    ops.push(Op::new(0, S_MSG_BIT).arg(b));
                }
            } else {
                for b in [0, 7, bits - 1, bits - 8] {
                    ops.push(Op::new(0, S_MSG_BIT).arg(b));
                }
                for _ in 0..28 {
                    ops.push(Op::new(0, S_MSG_BIT).arg(rng.below(bits)));
                }
            }
        }
        ops.push(Op::new(0, S_MSG_TRUNC));
        ops.push(Op::new(0, S_MSG_EXTEND).arg(0));
        ops.push(Op::new(0, S_MSG_EXTEND).arg(0x5a));
        for k in 1..=15 {
            ops.push(Op::new(0, S_PLUS_KL).arg(k));
        }
        ops.push(Op::new(0, S_OTHER_KEY).seed(rng.data_seed()));
        ops.push(Op::new(0, S_OTHER_SIG).seed(rng.data_seed()));
        for j in 0..8 {
            ops.push(Op::new(0, S_TORSION).arg(j).seed(rng.data_seed()));
        }
        // adversarial triples judged by the independent model
        ops.push(Op::new(0, S_MODEL_HONEST));
        for _ in 0..3 {
            ops.push(Op::new(0, S_RANDOM_TRIPLE).seed(rng.data_seed()));
        }
        for _ in 0..2 {
            ops.push(Op::new(0, S_NONPOINT_KEY).seed(rng.data_seed()));
        }
        for j in 1..8u64 {
            for _ in 0..2 {
                ops.push(Op::new(0, S_MIXED_ORDER_KEY).arg(j).seed(rng.data_seed()));
            }
        }
        for v in 0..8u64 {
            ops.push(Op::new(0, S_BOUNDARY_S).arg(v));
        }
        for v in 0..12u64 {
            ops.push(Op::new(0, S_SPECIAL_R).arg(v).seed(rng.data_seed()));
        }
        for v in 0..4u64 {
            ops.push(Op::new(0, S_NONCANONICAL_KEY).arg(v).seed(rng.data_seed()));
        }
        // S from the boundary family around L and 2^252 with R = enc([S]B) computed by the model and a small-order
        // key: the equation holds for ANY S, so only the canonicity rule decides (accept iff S < L)
        for _ in 0..20 {
            ops.push(Op::new(0, S_CRAFTED_S).arg(rng.below(5 * 256 * 3)).off(rng.range(0, 7) as u8).seed(rng.data_seed()));
        }
        for r in 0..12u64 {
            for sv in 0..5u64 {
                if sv < 2 || (r + sv) % 3 == 0 {
                    ops.push(Op::new(0, S_SPECIAL_R_AND_S).arg(r | (sv << 8)).seed(rng.data_seed()));
                }
            }
        }
        for v in 0..9u64 {
            ops.push(Op::new(0, S_UNCLAMPED_EXT).arg(v).seed(rng.data_seed()));
        }
        // (small-order key, small-order R) pairs with S = 0 (24 of the 64 per run), and a sample with R = [S]B + T
        for _ in 0..24 {
            ops.push(Op::new(0, S_TORSION_PAIR).arg(rng.below(64)).seed(rng.data_seed()));
        }
        for _ in 0..6 {
            ops.push(Op::new(0, S_TORSION_PAIR).arg(rng.below(64) | (rng.range(1, 3) << 6) | (rng.below(5 * 256 * 3) << 8)).seed(rng.data_seed()));
        }
        // R given as a non-canonical encoding of the point the equation yields: byte equality must fail
        for j in 0..8u64 {
            for e in 0..3u64 {
                ops.push(Op::new(0, S_TORSION_NONCANONICAL_R).arg(j + 8 * e).seed(rng.data_seed()));
            }
        }
        ops
    }
}

impl Scenario for SigChannel {
    fn name(&self) -> &'static str {
        "sigchannel"
    }
    fn kinds(&self) -> &'static [&'static str] {
        KINDS
    }
    fn nontrivial_kind(&self, k: u8) -> bool {
        k != S_NONE
    }
    fn real_vs_stub(&self) -> &'static str {
        "real: ed25519::{keypair, signature, signature_extended, verify} (and through them SHA-512, scalar reduction/muladd, point decoding, double scalar multiplication); stub: scheduler/PRNG, the hostile channel, the Byzantine sender's message search and the verdict model (harness SHA-512, big-integer mod L, integer curve arithmetic)"
    }
    fn cover_rule(&self) -> &'static str {
        "(catalogue entry, message-length class relative to the SHA-512 block after the 32/64-byte prefixes, specified verdict)"
    }
    fn generate(&self, rng: &mut Rng, _idx: u64, _tier: Tier) -> Trace {
        let mut t = Trace::new("sigchannel", "ed25519");
        t.set_p("seed_seed", match rng.below(12) { 0 => 0, 1 => 1, _ => rng.data_seed() });
        let mlen = msg_len(rng);
        t.set_p("msg_len", mlen as u64);
        t.set_p("msg_seed", match rng.below(8) { 0 => 0, _ => rng.data_seed() });
        t.set_p("extended", rng.chance(1, 3) as u64);
        t.ops = self.catalogue(rng, mlen);
        t
    }

    fn execute(&self, t: &Trace, obs: &mut Obs) -> Result<(), Violation> {
        let mut seed = [0u8; 32];
        seed.copy_from_slice(&data(t.p("seed_seed"), 32));
        let msg = data(t.p("msg_seed"), (t.p("msg_len") as usize).min(16384));
        let extended = t.p("extended") == 1;
        let (pk, sig) = guarded(|| honest(&seed, &msg, extended)).map_err(|m| Violation::new("unexpected-panic", 0, "keypair/signature", m, "ed25519"))?;
        obs.out(&pk);
        obs.out(&sig);
        let lenc = ((msg.len() + 64) % 128 >= 111 || (msg.len() + 64) % 128 == 0) as u32 | ((((msg.len() + 32) % 128 >= 111 || (msg.len() + 32) % 128 == 0) as u32) << 1);
        for (i, op) in t.ops.iter().enumerate() {
            let mut m = msg.clone();
            let mut p = pk;
            let mut s = sig;
            let mut want = false;
            let mut use_model = false;
            match op.k {
                S_NONE => want = true,
                S_SIG_BIT => {
                    let b = (op.arg % 512) as usize;
                    s[b / 8] ^= 1 << (b % 8);
                }
                S_PK_BIT => {
                    let b = (op.arg % 256) as usize;
                    p[b / 8] ^= 1 << (b % 8);
                }
                S_MSG_BIT => {
                    if m.is_empty() {
                        continue;
                    }
                    let b = (op.arg as usize) % (m.len() * 8);
                    m[b / 8] ^= 1 << (b % 8);
                }
                S_MSG_TRUNC => {
                    if m.is_empty() {
                        continue;
                    }
                    m.pop();
                }
                S_MSG_EXTEND => m.push(op.arg as u8),
                S_PLUS_KL => {
                    let mut sc = [0u8; 32];
                    sc.copy_from_slice(&s[32..]);
                    match big::add_kl(&sc, (op.arg as u32).clamp(1, 15)) {
                        Some(n) => s[32..].copy_from_slice(&n),
                        None => continue,
                    }
                }
                S_OTHER_KEY => {
                    let mut s2 = [0u8; 32];
                    s2.copy_from_slice(&data(op.seed | 16, 32));
                    if s2 == seed {
                        continue;
                    }
                    p = guarded(|| ed25519::keypair(&s2).1).map_err(|e| Violation::new("unexpected-panic", i, "keypair", e, "ed25519"))?;
                }
                S_OTHER_SIG => {
                    let mut m2 = data(op.seed | 16, msg.len().max(1));
                    if m2 == msg {
                        m2[0] ^= 1;
                    }
                    s = guarded(|| honest(&seed, &m2, extended).1).map_err(|e| Violation::new("unexpected-panic", i, "signature", e, "ed25519"))?;
                }
                S_TORSION => {
                    let j = (op.arg % 8) as usize;
                    p = TORSION[j];
                    match torsion_message(&p, op.seed) {
                        Some(tm) => m = tm,
                        None => {
                            obs.hit("skipped.no_torsion_message_in_512_tries");
                            continue;
                        }
                    }
                    s = [0u8; 64];
                    s[..32].copy_from_slice(&TORSION[0]); // R = identity, S = 0
                    want = p != [0u8; 32];
                    obs.hit(if want { "fault.byzantine_small_order_forgery_must_accept" } else { "fault.byzantine_all_zero_key_must_reject" });
                }
                S_MODEL_HONEST => use_model = true,
                S_RANDOM_TRIPLE => {
                    p.copy_from_slice(&data(op.seed | 16, 32));
                    s.copy_from_slice(&data((op.seed ^ 0x51) | 16, 64));
                    if op.seed & 2 == 0 {
                        s[63] &= 0x0f; // half of them with S below 2^252, so that the point arithmetic is reached
                    }
                    use_model = true;
                }
                S_NONPOINT_KEY => {
                    // a canonical y that is not the y-coordinate of any point, under an otherwise honest signature
                    let dconst = med::d();
                    let mut found = false;
                    for t in 0..64u64 {
                        let mut cand = [0u8; 32];
                        cand.copy_from_slice(&data(crate::rng::splitmix64(op.seed ^ t) | 16, 32));
                        cand[31] &= 0x3f;
                        if med::decode(&cand, &dconst).0 == med::Decoded::Invalid {
                            p = cand;
                            found = true;
                            break;
                        }
                    }
                    if !found {
                        continue;
                    }
                    use_model = true;
                }
                S_MIXED_ORDER_KEY => {
                    // Byzantine signer: public key A + T (T of small order) and a signature made by the REAL
                    // signer over those key bytes; valid iff the torsion part cancels, which only the model can tell
                    let j = ((op.arg % 8) as usize).max(1);
                    let ap = match med::add_encoded(&pk, &TORSION[j]) {
                        Some(x) => x,
                        None => continue,
                    };
                    let (kp, _) = guarded(|| ed25519::keypair(&seed)).map_err(|e| Violation::new("unexpected-panic", i, "keypair", e, "ed25519"))?;
                    let mut kp2 = kp;
                    kp2[32..].copy_from_slice(&ap);
                    m = data(op.seed | 16, 1 + (op.seed % 40) as usize);
                    s = guarded(|| ed25519::signature(&m, &kp2)).map_err(|e| Violation::new("unexpected-panic", i, "signature", e, "ed25519"))?;
                    p = ap;
                    use_model = true;
                }
                S_BOUNDARY_S => {
                    let mut v = [0u8; 32];
                    match op.arg % 8 {
                        0 => {}
                        1 => v[0] = 1,
                        2 => {
                            v = big::L;
                            v[0] -= 1;
                        }
                        3 => v = big::L,
                        4 => {
                            v = big::L;
                            v[0] += 1;
                        }
                        5 => v[31] = 0x10,
                        6 => {
                            v = [0xff; 32];
                            v[31] = 0x0f;
                        }
                        _ => v = [0xff; 32],
                    }
                    s[32..].copy_from_slice(&v);
                    use_model = true;
                }
                S_SPECIAL_R => {
                    let r: [u8; 32] = match op.arg % 12 {
                        a @ 0..=7 => TORSION[a as usize],
                        a @ 8..=10 => NONCANONICAL_IDENTITY[(a - 8) as usize],
                        _ => {
                            let mut x = [0u8; 32];
                            x.copy_from_slice(&data(op.seed | 16, 32));
                            x
                        }
                    };
                    s[..32].copy_from_slice(&r);
                    use_model = true;
                }
                S_NONCANONICAL_KEY => {
                    // y >= p encodings of small-order points: the property text does not fix the verdict
                    // (recorded, compared across builds, not judged)
                    p = match op.arg % 4 {
                        0 => NONCANONICAL_IDENTITY[0],
                        1 => NONCANONICAL_IDENTITY[1],
                        2 => NONCANONICAL_IDENTITY[2],
                        _ => {
                            let mut x = [0xffu8; 32]; // y = p (an order-4 point given as 2^255-19), sign set
                            x[0] = 0xed;
                            x
                        }
                    };
                    match torsion_message(&p, op.seed) {
                        Some(tm) => m = tm,
                        None => continue,
                    }
                    s = [0u8; 64];
                    s[..32].copy_from_slice(&TORSION[0]);
                    use_model = true;
                }
                S_CRAFTED_S => {
                    let sv = big::boundary_scalar(op.arg);
                    let mut j = (op.off % 8) as usize;
                    if j == 2 {
                        j = 3; // not the all-zero key
                    }
                    p = TORSION[j];
                    let r = med::encode_scalarmult_base(&sv);
                    match torsion_message_r(&r, &p, op.seed) {
                        Some(tm) => m = tm,
                        None => {
                            obs.hit("skipped.no_torsion_message_in_512_tries");
                            continue;
                        }
                    }
                    s[..32].copy_from_slice(&r);
                    s[32..].copy_from_slice(&sv);
                    if big::lt_l(&sv) {
                        obs.hit("probe.crafted_valid_signature_with_boundary_s");
                        if sv[31] & 0xf0 != 0 {
                            obs.hit("probe.crafted_valid_signature_with_s_at_or_above_2^252");
                        }
                    } else {
                        obs.hit("probe.crafted_equation_with_noncanonical_s");
                    }
                    use_model = true;
                }
                S_SPECIAL_R_AND_S => {
                    let r: [u8; 32] = match op.arg & 0xff {
                        a @ 0..=7 => TORSION[a as usize],
                        a @ 8..=10 => NONCANONICAL_IDENTITY[(a - 8) as usize],
                        _ => {
                            let mut x = [0u8; 32];
                            x.copy_from_slice(&data(op.seed | 16, 32));
                            x
                        }
                    };
                    let mut v = [0u8; 32];
                    match (op.arg >> 8) % 5 {
                        0 => {}
                        1 => v[0] = 1,
                        2 => v[0] = 8,
                        3 => {
                            v = big::L;
                            v[0] -= 1;
                        }
                        _ => v = big::L,
                    }
                    s[..32].copy_from_slice(&r);
                    s[32..].copy_from_slice(&v);
                    if op.seed & 1 == 1 {
                        m = data(op.seed ^ 0x3c, 1 + (op.seed % 50) as usize);
                    }
                    use_model = true;
                }
                S_TORSION_PAIR => {
                    let j = (op.arg & 7) as usize;
                    let k = ((op.arg >> 3) & 7) as usize;
                    p = TORSION[j];
                    let sv = match (op.arg >> 6) & 3 {
                        0 => [0u8; 32],
                        1 => {
                            let mut one = [0u8; 32];
                            one[0] = 1 + (op.seed % 7) as u8;
                            one
                        }
                        _ => big::boundary_scalar(op.arg >> 8),
                    };
                    let r = if sv == [0u8; 32] {
                        TORSION[k]
                    } else {
                        match med::add_encoded(&med::encode_scalarmult_base(&sv), &TORSION[k]) {
                            Some(x) => x,
                            None => continue,
                        }
                    };
                    match torsion_pair_message(&r, &TORSION[k], &p, op.seed) {
                        Some((tm, cancels)) => {
                            m = tm;
                            obs.hit(if cancels { "probe.small_order_r_cancels_h_times_small_order_key" } else { "probe.small_order_r_does_not_cancel" });
                        }
                        None => {
                            obs.hit("skipped.no_torsion_message_in_512_tries");
                            continue;
                        }
                    }
                    s[..32].copy_from_slice(&r);
                    s[32..].copy_from_slice(&sv);
                    use_model = true;
                }
                S_UNCLAMPED_EXT => {
                    // extended secret = scalar (32 bytes, below 2^255, not clamped) || prefix (32 bytes)
                    let mut ext = [0u8; 64];
                    ext.copy_from_slice(&data(op.seed | 16, 64));
                    match op.arg % 9 {
                        7 | 8 => {
                            // runs of a repeated byte (0x77, 0x88, 0xff, ...) over a stretch or exactly one 64-bit word of
                            // the scalar: carries run through the whole stretch in the window recoding of scalarmult_base
                            ext[..32].copy_from_slice(&crate::scn::xcurve::special_scalar(3 + op.arg % 9, op.seed));
                        }
                        6 => ext[31] = 0x80,                        // top of scalarmult_base's documented range (a[31] <= 0x80)
                        0 => ext[31] &= 0x7f,                       // any scalar below 2^255
                        1 => {
                            // tiny scalar 1..=16 (low bits set: not a multiple of 8)
                            let k = 1 + (op.seed % 16) as u8;
                            for b in ext[..32].iter_mut() {
                                *b = 0;
                            }
                            ext[0] = k;
                        }
                        2 => ext[31] &= 0x0f,                       // already reduced (below 2^252 < L)
                        3 => {
                            ext[31] &= 0x7f;
                            ext[31] |= 0x40;                        // bit 254 set like a clamped scalar, low bits free
                            ext[0] |= 1;
                        }
                        4 => {
                            ext[..32].copy_from_slice(&big::L);     // L - 1: the largest reduced scalar
                            ext[0] -= 1;
                        }
                        _ => {
                            ext[..32].copy_from_slice(&big::L);     // L + small: unreduced, congruent to a tiny scalar
                            ext[0] += 1 + (op.seed % 8) as u8;
                        }
                    }
                    p = guarded(|| ed25519::extended_to_public(&ext)).map_err(|e| Violation::new("unexpected-panic", i, "extended_to_public", e, "ed25519"))?;
                    m = data(op.seed ^ 0x77, msg.len());
                    s = guarded(|| ed25519::signature_extended(&m, &ext)).map_err(|e| Violation::new("unexpected-panic", i, "signature_extended", e, "ed25519"))?;
                    obs.out(&p);
                    obs.out(&s);
                    want = true;
                    // the independent model must agree that what the signer produced satisfies the equation
                    if med::verify(&m, &p, &s) != med::Verdict::Accept {
                        return Err(Violation::new("rejected-honest", i, "a signature satisfying the RFC 8032 equation", "independent model rejects (public key, signature) produced by extended_to_public / signature_extended", format!("ed25519 signing from an unclamped extended secret, class {} (message {} bytes)", op.arg % 9, m.len())));
                    }
                }
                S_TORSION_NONCANONICAL_R => {
                    let j = (op.arg % 8) as usize;
                    let e = ((op.arg / 8) % 3) as usize;
                    p = TORSION[j];
                    let r = NONCANONICAL_IDENTITY[e];
                    match torsion_message_r(&r, &p, op.seed) {
                        Some(tm) => m = tm,
                        None => {
                            obs.hit("skipped.no_torsion_message_in_512_tries");
                            continue;
                        }
                    }
                    // S*B - h*A is the identity whatever the reading of h; its encoding is 01 00..00, not these bytes
                    s = [0u8; 64];
                    s[..32].copy_from_slice(&r);
                    want = false;
                    obs.hit("fault.byzantine_noncanonical_r_must_reject");
                }
                _ => continue,
            }
            obs.begin_op(i);
            obs.hit(match op.k {
                S_NONE => "channel.untouched",
                S_SIG_BIT => "fault.flip_signature_bit",
                S_PK_BIT => "fault.flip_public_key_bit",
                S_MSG_BIT => "fault.flip_message_bit",
                S_MSG_TRUNC | S_MSG_EXTEND => "fault.message_length_changed",
                S_PLUS_KL => "fault.s_plus_kL",
                S_OTHER_KEY => "fault.other_signers_key",
                S_OTHER_SIG => "fault.other_messages_signature",
                S_MODEL_HONEST => "channel.untouched_model_checked",
                S_RANDOM_TRIPLE => "fault.byzantine_random_triple",
                S_NONPOINT_KEY => "fault.byzantine_non_point_key",
                S_MIXED_ORDER_KEY => "fault.byzantine_mixed_order_key",
                S_BOUNDARY_S => "fault.boundary_value_s",
                S_SPECIAL_R => "fault.special_encoding_r",
                S_NONCANONICAL_KEY => "fault.byzantine_noncanonical_key_encoding",
                S_CRAFTED_S => "fault.byzantine_crafted_equation_boundary_s",
                S_UNCLAMPED_EXT => "channel.untouched_unclamped_extended_signer",
                S_SPECIAL_R_AND_S => "fault.byzantine_special_r_with_degenerate_s",
                S_TORSION_NONCANONICAL_R => "fault.byzantine_small_order_key_noncanonical_r",
                S_TORSION_PAIR => "fault.byzantine_small_order_key_with_small_order_r",
                _ => "fault.byzantine_small_order_key",
            });
            obs.cov(((op.k as u32) << 4) | (lenc << 1) | want as u32);
            let got = guarded(|| ed25519::verify(&m, &p, &s)).map_err(|e| Violation::new("unexpected-panic", i, "verify returns a verdict", e, KINDS[op.k as usize]))?;
            obs.out_flag("verify", got);
            if use_model {
                match med::verify(&m, &p, &s) {
                    med::Verdict::Accept => {
                        want = true;
                        obs.hit("model.verdict_accept");
                    }
                    med::Verdict::Reject => {
                        want = false;
                        obs.hit("model.verdict_reject");
                    }
                    med::Verdict::Unspecified => {
                        obs.hit("model.verdict_unspecified_not_judged");
                        continue;
                    }
                }
            }
            if got != want {
                let kind = if got { "accepted-corrupted" } else { "rejected-honest" };
                return Err(Violation::new(kind, i, format!("{}", want), format!("{}", got), format!("ed25519 verify after '{}' arg {} (message {} bytes, signer {})", KINDS[op.k as usize], op.arg, m.len(), if extended { "extended" } else { "seed" })));
            }
        }
        Ok(())
    }
}
