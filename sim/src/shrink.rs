//! Delta debugging over the trace: drop operations (ddmin), then shrink arguments, accepting
//! a candidate only if the same violation class (kind + known-finding name) still fails.

use crate::trace::{Obs, Scenario, Trace, Violation};

pub fn same_class(s: &dyn Scenario, t: &Trace, kind: &str, named: Option<&'static str>) -> Option<Violation> {
    let mut obs = Obs::quiet();
    match s.execute(t, &mut obs) {
        Err(v) if v.kind == kind && s.classify(t, &v) == named => Some(v),
        _ => None,
    }
}

pub fn minimise(s: &dyn Scenario, t: &Trace, v: &Violation) -> (Trace, Violation) {
    let kind = v.kind;
    let named = s.classify(t, v);
    let mut best = t.clone();
    let mut bestv = v.clone();
    let mut budget: u32 = 4000;

    // 1. cut after the failing step
    if bestv.step + 1 < best.ops.len() {
        let mut c = best.clone();
        c.ops.truncate(bestv.step + 1);
        if let Some(nv) = try_c(s, &c, kind, named, &mut budget) {
            best = c;
            bestv = nv;
        }
    }

    // 2. ddmin over operations
    let mut n = 2usize;
    while best.ops.len() >= 2 && budget > 0 {
        let len = best.ops.len();
        let chunk = (len + n - 1) / n;
        let mut reduced = false;
        let mut start = 0;
        while start < len {
            let end = (start + chunk).min(len);
            let mut c = best.clone();
            c.ops.drain(start..end);
            if let Some(nv) = try_c(s, &c, kind, named, &mut budget) {
                best = c;
                bestv = nv;
                n = (n - 1).max(2);
                reduced = true;
                break;
            }
            start = end;
        }
        if !reduced {
            if n >= len {
                break;
            }
            n = (n * 2).min(len);
        }
    }
    // single-op removal pass
    let mut i = 0;
    while i < best.ops.len() && budget > 0 {
        let mut c = best.clone();
        c.ops.remove(i);
        if let Some(nv) = try_c(s, &c, kind, named, &mut budget) {
            best = c;
            bestv = nv;
        } else {
            i += 1;
        }
    }

    // 3. argument shrinking, to a fixpoint
    let mut changed = true;
    while changed && budget > 0 {
        changed = false;
        for i in 0..best.ops.len() {
            // lengths: 0, 1, halves, len-1
            let l = best.ops[i].len;
            let mut cands: Vec<u32> = vec![0, 1, l / 2, l.saturating_sub(1)];
            cands.sort();
            cands.dedup();
            for cl in cands {
                if cl >= best.ops[i].len {
                    continue;
                }
                let mut c = best.clone();
                c.ops[i].len = cl;
                if let Some(nv) = try_c(s, &c, kind, named, &mut budget) {
                    best = c;
                    bestv = nv;
                    changed = true;
                    break;
                }
            }
            if best.ops[i].off != 0 {
                let mut c = best.clone();
                c.ops[i].off = 0;
                if let Some(nv) = try_c(s, &c, kind, named, &mut budget) {
                    best = c;
                    bestv = nv;
                    changed = true;
                }
            }
            if best.ops[i].seed != 0 {
                let mut c = best.clone();
                c.ops[i].seed = 0;
                if let Some(nv) = try_c(s, &c, kind, named, &mut budget) {
                    best = c;
                    bestv = nv;
                    changed = true;
                }
            }
            if best.ops[i].h != 0 {
                let mut c = best.clone();
                c.ops[i].h = 0;
                if let Some(nv) = try_c(s, &c, kind, named, &mut budget) {
                    best = c;
                    bestv = nv;
                    changed = true;
                }
            }
        }
    }
    (best, bestv)
}

fn try_c(s: &dyn Scenario, c: &Trace, kind: &str, named: Option<&'static str>, budget: &mut u32) -> Option<Violation> {
    if *budget == 0 {
        return None;
    }
    *budget -= 1;
    same_class(s, c, kind, named)
}
