//! The only source of randomness of the simulator: splitmix64 + xoshiro256**.
//! No clock, address, thread id or hash-map order is ever mixed in.

#[inline]
pub fn splitmix64(x: u64) -> u64 {
    let mut z = x.wrapping_add(0x9E3779B97F4A7C15);
    z = (z ^ (z >> 30)).wrapping_mul(0xBF58476D1CE4E5B9);
    z = (z ^ (z >> 27)).wrapping_mul(0x94D049BB133111EB);
    z ^ (z >> 31)
}

pub fn fnv64(s: &[u8]) -> u64 {
    let mut h: u64 = 0xcbf29ce484222325;
    for b in s {
        h ^= *b as u64;
        h = h.wrapping_mul(0x100000001b3);
    }
    h
}

#[derive(Clone)]
pub struct Rng {
    s: [u64; 4],
}

impl Rng {
    pub fn new(seed: u64) -> Self {
        let mut x = seed;
        let mut s = [0u64; 4];
        for v in s.iter_mut() {
            x = x.wrapping_add(0x9E3779B97F4A7C15);
            *v = splitmix64(x);
        }
        if s == [0; 4] {
            s[0] = 1;
        }
        Rng { s }
    }

    #[inline]
    pub fn next_u64(&mut self) -> u64 {
        let r = self.s[1].wrapping_mul(5).rotate_left(7).wrapping_mul(9);
        let t = self.s[1] << 17;
        self.s[2] ^= self.s[0];
        self.s[3] ^= self.s[1];
        self.s[1] ^= self.s[2];
        self.s[0] ^= self.s[3];
        self.s[2] ^= t;
        self.s[3] = self.s[3].rotate_left(45);
        r
    }

    /// uniform in 0..n (n > 0)
    #[inline]
    pub fn below(&mut self, n: u64) -> u64 {
        debug_assert!(n > 0);
        // multiply-shift; bias is irrelevant here
        ((self.next_u64() as u128 * n as u128) >> 64) as u64
    }

    #[inline]
    pub fn range(&mut self, lo: u64, hi_incl: u64) -> u64 {
        lo + self.below(hi_incl - lo + 1)
    }

    #[inline]
    pub fn chance(&mut self, num: u64, den: u64) -> bool {
        self.below(den) < num
    }

    pub fn pick<'a, T>(&mut self, xs: &'a [T]) -> &'a T {
        &xs[self.below(xs.len() as u64) as usize]
    }

    /// weighted choice: returns the index
    pub fn weighted(&mut self, w: &[u32]) -> usize {
        let tot: u64 = w.iter().map(|x| *x as u64).sum();
        if tot == 0 {
            return 0;
        }
        let mut r = self.below(tot);
        for (i, x) in w.iter().enumerate() {
            if r < *x as u64 {
                return i;
            }
            r -= *x as u64;
        }
        w.len() - 1
    }

    pub fn fill(&mut self, out: &mut [u8]) {
        for c in out.chunks_mut(8) {
            let v = self.next_u64().to_le_bytes();
            c.copy_from_slice(&v[..c.len()]);
        }
    }

    /// a non-reserved data seed (0 and 1 have a fixed meaning, see `data`)
    pub fn data_seed(&mut self) -> u64 {
        loop {
            let s = self.next_u64();
            if s > 15 {
                return s;
            }
        }
    }
}

/// Bytes carried by an operation are derived from the operation's own seed, never from
/// the scheduler's stream, so that dropping an operation does not change the others.
/// seed 0 = zeros, 1 = 0xff, 2 = 0x01 repeated, 3 = 0x80 repeated, otherwise a PRNG stream.
pub fn data(seed: u64, len: usize) -> Vec<u8> {
    let mut v = vec![0u8; len];
    fill_data(seed, &mut v);
    v
}

pub fn fill_data(seed: u64, out: &mut [u8]) {
    match seed {
        0 => out.iter_mut().for_each(|b| *b = 0),
        1 => out.iter_mut().for_each(|b| *b = 0xff),
        2 => out.iter_mut().for_each(|b| *b = 0x01),
        3 => out.iter_mut().for_each(|b| *b = 0x80),
        s => Rng::new(s).fill(out),
    }
}

/// `len` bytes placed at byte offset `off` of an over-allocated buffer (alignment fault kind)
pub struct Aligned {
    buf: Vec<u8>,
    off: usize,
    len: usize,
}

impl core::ops::Deref for Aligned {
    type Target = [u8];
    fn deref(&self) -> &[u8] {
        self.get()
    }
}
impl core::ops::DerefMut for Aligned {
    fn deref_mut(&mut self) -> &mut [u8] {
        self.get_mut()
    }
}

impl Aligned {
    pub fn new(seed: u64, len: usize, off: usize) -> Self {
        let mut buf = vec![0xA5u8; len + off + 32];
        // align the base to 32 so that `off` is the real misalignment
        let base = buf.as_ptr() as usize;
        let pad = (32 - (base % 32)) % 32;
        let start = pad + off;
        if buf.len() < start + len {
            buf.resize(start + len, 0xA5);
        }
        fill_data(seed, &mut buf[start..start + len]);
        Aligned { buf, off: start, len }
    }
    /// a destination buffer pre-filled with garbage ("dirty disk") whose start address is misaligned by 0..31 bytes
    /// relative to a 32-byte boundary; contents and misalignment both follow from `seed` (and `len`)
    pub fn dirty(seed: u64, len: usize) -> Self {
        let off = (splitmix64(seed ^ (len as u64).wrapping_mul(0x9E3779B97F4A7C15)) >> 5) as usize % 32;
        Aligned::new(seed, len, off)
    }
    /// the same misaligned placement for given contents (in-place operations)
    pub fn holding(bytes: &[u8], seed: u64) -> Self {
        let mut a = Aligned::dirty(seed, bytes.len());
        a.get_mut().copy_from_slice(bytes);
        a
    }
    pub fn to_vec(&self) -> Vec<u8> {
        self.get().to_vec()
    }
    #[inline]
    pub fn get(&self) -> &[u8] {
        &self.buf[self.off..self.off + self.len]
    }
    #[inline]
    pub fn get_mut(&mut self) -> &mut [u8] {
        &mut self.buf[self.off..self.off + self.len]
    }
}
