//! Panics are observations ("failed loudly"), not crashes of the simulator.

use std::panic::{catch_unwind, AssertUnwindSafe};
use std::sync::Once;

static HOOK: Once = Once::new();

pub fn install_silent_hook() {
    HOOK.call_once(|| {
        std::panic::set_hook(Box::new(|_| {}));
    });
}

/// Run a real-code operation; `Err(msg)` when it panicked.
pub fn guarded<R>(f: impl FnOnce() -> R) -> Result<R, String> {
    match catch_unwind(AssertUnwindSafe(f)) {
        Ok(r) => Ok(r),
        Err(e) => {
            let msg = if let Some(s) = e.downcast_ref::<&'static str>() {
                s.to_string()
            } else if let Some(s) = e.downcast_ref::<String>() {
                s.clone()
            } else {
                "<non-string panic>".to_string()
            };
            Err(msg)
        }
    }
}
