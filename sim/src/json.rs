//! Minimal JSON value, writer and parser (no dependencies). Integers keep full u64/i64 range.

use std::collections::BTreeMap;
use std::fmt::Write;

#[derive(Clone, Debug, PartialEq)]
pub enum J {
    Null,
    Bool(bool),
    U(u64),
    I(i64),
    F(f64),
    S(String),
    A(Vec<J>),
    O(Vec<(String, J)>),
}

impl J {
    pub fn obj() -> J {
        J::O(Vec::new())
    }
    pub fn set(mut self, k: &str, v: J) -> J {
        if let J::O(ref mut o) = self {
            if let Some(e) = o.iter_mut().find(|(kk, _)| kk == k) {
                e.1 = v;
            } else {
                o.push((k.to_string(), v));
            }
        }
        self
    }
    pub fn put(&mut self, k: &str, v: J) {
        if let J::O(ref mut o) = self {
            if let Some(e) = o.iter_mut().find(|(kk, _)| kk == k) {
                e.1 = v;
            } else {
                o.push((k.to_string(), v));
            }
        }
    }
    pub fn get(&self, k: &str) -> Option<&J> {
        match self {
            J::O(o) => o.iter().find(|(kk, _)| kk == k).map(|(_, v)| v),
            _ => None,
        }
    }
    pub fn as_u64(&self) -> Option<u64> {
        match self {
            J::U(u) => Some(*u),
            J::I(i) if *i >= 0 => Some(*i as u64),
            J::F(f) if *f >= 0.0 && f.fract() == 0.0 => Some(*f as u64),
            _ => None,
        }
    }
    pub fn as_str(&self) -> Option<&str> {
        match self {
            J::S(s) => Some(s),
            _ => None,
        }
    }
    pub fn as_arr(&self) -> Option<&Vec<J>> {
        match self {
            J::A(a) => Some(a),
            _ => None,
        }
    }
    pub fn s(x: &str) -> J {
        J::S(x.to_string())
    }
    pub fn from_map(m: &BTreeMap<String, u64>) -> J {
        J::O(m.iter().map(|(k, v)| (k.clone(), J::U(*v))).collect())
    }

    pub fn to_string(&self) -> String {
        let mut s = String::new();
        self.write(&mut s, 0, false);
        s
    }
    pub fn to_pretty(&self) -> String {
        let mut s = String::new();
        self.write(&mut s, 0, true);
        s.push('\n');
        s
    }

    fn write(&self, out: &mut String, ind: usize, pretty: bool) {
        match self {
            J::Null => out.push_str("null"),
            J::Bool(b) => out.push_str(if *b { "true" } else { "false" }),
            J::U(u) => {
                let _ = write!(out, "{}", u);
            }
            J::I(i) => {
                let _ = write!(out, "{}", i);
            }
            J::F(f) => {
                if f.is_finite() {
                    let t = format!("{}", f);
                    out.push_str(&t);
                    if !t.contains('.') && !t.contains('e') {
                        out.push_str(".0");
                    }
                } else {
                    out.push_str("null");
                }
            }
            J::S(s) => write_str(out, s),
            J::A(a) => {
                // arrays of scalars stay on one line
                let scalar = a.iter().all(|x| !matches!(x, J::A(_) | J::O(_)));
                out.push('[');
                for (i, x) in a.iter().enumerate() {
                    if i > 0 {
                        out.push(',');
                    }
                    if pretty && !scalar {
                        out.push('\n');
                        push_ind(out, ind + 1);
                    } else if i > 0 && pretty {
                        out.push(' ');
                    }
                    x.write(out, ind + 1, pretty && !is_flat(x));
                }
                if pretty && !scalar && !a.is_empty() {
                    out.push('\n');
                    push_ind(out, ind);
                }
                out.push(']');
            }
            J::O(o) => {
                out.push('{');
                for (i, (k, v)) in o.iter().enumerate() {
                    if i > 0 {
                        out.push(',');
                    }
                    if pretty {
                        out.push('\n');
                        push_ind(out, ind + 1);
                    }
                    write_str(out, k);
                    out.push(':');
                    if pretty {
                        out.push(' ');
                    }
                    v.write(out, ind + 1, pretty && !is_flat(v));
                }
                if pretty && !o.is_empty() {
                    out.push('\n');
                    push_ind(out, ind);
                }
                out.push('}');
            }
        }
    }
}

/// small objects (no nested containers) are printed on one line even in pretty mode
fn is_flat(x: &J) -> bool {
    match x {
        J::O(o) => o.len() <= 8 && o.iter().all(|(_, v)| !matches!(v, J::A(_) | J::O(_))),
        _ => false,
    }
}

fn push_ind(out: &mut String, n: usize) {
    for _ in 0..n {
        out.push(' ');
    }
}

fn write_str(out: &mut String, s: &str) {
    out.push('"');
    for c in s.chars() {
        match c {
            '"' => out.push_str("\\\""),
            '\\' => out.push_str("\\\\"),
            '\n' => out.push_str("\\n"),
            '\r' => out.push_str("\\r"),
            '\t' => out.push_str("\\t"),
            c if (c as u32) < 0x20 => {
                let _ = write!(out, "\\u{:04x}", c as u32);
            }
            c => out.push(c),
        }
    }
    out.push('"');
}

pub fn parse(s: &str) -> Result<J, String> {
    let b = s.as_bytes();
    let mut p = 0usize;
    let v = parse_value(b, &mut p)?;
    skip_ws(b, &mut p);
    if p != b.len() {
        return Err(format!("trailing data at {}", p));
    }
    Ok(v)
}

fn skip_ws(b: &[u8], p: &mut usize) {
    while *p < b.len() && (b[*p] == b' ' || b[*p] == b'\n' || b[*p] == b'\r' || b[*p] == b'\t') {
        *p += 1;
    }
}

fn parse_value(b: &[u8], p: &mut usize) -> Result<J, String> {
    skip_ws(b, p);
    if *p >= b.len() {
        return Err("eof".into());
    }
    match b[*p] {
        b'{' => {
            *p += 1;
            let mut o = Vec::new();
            skip_ws(b, p);
            if *p < b.len() && b[*p] == b'}' {
                *p += 1;
                return Ok(J::O(o));
            }
            loop {
                skip_ws(b, p);
                let k = match parse_value(b, p)? {
                    J::S(s) => s,
                    _ => return Err("key".into()),
                };
                skip_ws(b, p);
                if *p >= b.len() || b[*p] != b':' {
                    return Err("colon".into());
                }
                *p += 1;
                let v = parse_value(b, p)?;
                o.push((k, v));
                skip_ws(b, p);
                if *p < b.len() && b[*p] == b',' {
                    *p += 1;
                    continue;
                }
                if *p < b.len() && b[*p] == b'}' {
                    *p += 1;
                    return Ok(J::O(o));
                }
                return Err(format!("object at {}", p));
            }
        }
        b'[' => {
            *p += 1;
            let mut a = Vec::new();
            skip_ws(b, p);
            if *p < b.len() && b[*p] == b']' {
                *p += 1;
                return Ok(J::A(a));
            }
            loop {
                a.push(parse_value(b, p)?);
                skip_ws(b, p);
                if *p < b.len() && b[*p] == b',' {
                    *p += 1;
                    continue;
                }
                if *p < b.len() && b[*p] == b']' {
                    *p += 1;
                    return Ok(J::A(a));
                }
                return Err(format!("array at {}", p));
            }
        }
        b'"' => {
            *p += 1;
            let mut s = String::new();
            while *p < b.len() {
                let c = b[*p];
                *p += 1;
                match c {
                    b'"' => return Ok(J::S(s)),
                    b'\\' => {
                        if *p >= b.len() {
                            return Err("escape".into());
                        }
                        let e = b[*p];
                        *p += 1;
                        match e {
                            b'n' => s.push('\n'),
                            b'r' => s.push('\r'),
                            b't' => s.push('\t'),
                            b'b' => s.push('\u{8}'),
                            b'f' => s.push('\u{c}'),
                            b'u' => {
                                if *p + 4 > b.len() {
                                    return Err("unicode".into());
                                }
                                let h = std::str::from_utf8(&b[*p..*p + 4]).map_err(|e| e.to_string())?;
                                let v = u32::from_str_radix(h, 16).map_err(|e| e.to_string())?;
                                *p += 4;
                                s.push(char::from_u32(v).unwrap_or('?'));
                            }
                            other => s.push(other as char),
                        }
                    }
                    _ => {
                        // copy raw utf-8 bytes
                        let start = *p - 1;
                        let mut end = *p;
                        while end < b.len() && b[end] != b'"' && b[end] != b'\\' {
                            end += 1;
                        }
                        s.push_str(std::str::from_utf8(&b[start..end]).map_err(|e| e.to_string())?);
                        *p = end;
                    }
                }
            }
            Err("unterminated string".into())
        }
        b't' if b[*p..].starts_with(b"true") => {
            *p += 4;
            Ok(J::Bool(true))
        }
        b'f' if b[*p..].starts_with(b"false") => {
            *p += 5;
            Ok(J::Bool(false))
        }
        b'n' if b[*p..].starts_with(b"null") => {
            *p += 4;
            Ok(J::Null)
        }
        _ => {
            let start = *p;
            while *p < b.len() && (b[*p] == b'-' || b[*p] == b'+' || b[*p] == b'.' || b[*p] == b'e' || b[*p] == b'E' || b[*p].is_ascii_digit()) {
                *p += 1;
            }
            let t = std::str::from_utf8(&b[start..*p]).map_err(|e| e.to_string())?;
            if t.is_empty() {
                return Err(format!("unexpected byte at {}", start));
            }
            if let Ok(u) = t.parse::<u64>() {
                return Ok(J::U(u));
            }
            if let Ok(i) = t.parse::<i64>() {
                return Ok(J::I(i));
            }
            t.parse::<f64>().map(J::F).map_err(|e| e.to_string())
        }
    }
}

pub fn hex(b: &[u8]) -> String {
    let mut s = String::with_capacity(b.len() * 2);
    for x in b {
        let _ = write!(s, "{:02x}", x);
    }
    s
}

/// hex, truncated in the middle when long (for violation messages)
pub fn hex_short(b: &[u8]) -> String {
    if b.len() <= 48 {
        hex(b)
    } else {
        format!("{}..{}(len {})", hex(&b[..24]), hex(&b[b.len() - 8..]), b.len())
    }
}
