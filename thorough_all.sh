#!/bin/bash
# every registered check at the thorough tier on the unchanged tree (background: vp run --with-repo -- ./thorough_all.sh)
cd "$(dirname "$0")"; mkdir -p tmp
[ -n "$VP_RUN_REPO" ] && export VERIF_REPO="$VP_RUN_REPO"
./check --setup >/dev/null 2>&1
bad=0
for p in ${ONLY:-$(python3 -c "import json; print(' '.join(c['property_id'] for c in json.load(open('MANIFEST.json'))['checks']))")}; do
  s=$(date +%s); ./check $p thorough > tmp/thorough-$p.log 2>&1; rc=$?; e=$(date +%s)
  echo "$p thorough rc=$rc $((e-s))s"; [ $rc -ne 0 ] && { bad=1; grep -E "^(VIOLATION|HARNESS)" tmp/thorough-$p.log | head -5; }
done
exit $bad
