#!/bin/bash
# sensitivity regression: every stored seeded change must still be reported by the quick check of (one of) the properties
# recorded in its meta.json; every stored behaviour-preserving refactor (seeded/benign) must leave every check silent.
# usage: eval_all_seeds.sh [id-prefix]      e.g. eval_all_seeds.sh C03
cd "$(dirname "$0")"
fail=0
for d in seeded/${1:-C}*/; do
  id=$(basename $d)
  [ "$id" = "benign" ] && continue
  pids=$(python3 - "$d" <<'PY'
import json,re,sys
m=json.load(open(sys.argv[1]+'meta.json'))
ids=[]
for s in m['detected_by']:
    for x in re.findall(r'\bC\d\d\b', s.split('quick')[0] if 'quick' in s else s):
        if x not in ids: ids.append(x)
print(' '.join(ids[:2]) if ids else m['property'])
PY
)
  expect=$(python3 -c "import json;print(1 if json.load(open('/verif/${d}meta.json'))['detected_by'] else 0)")
  out=$(RUN_SUITE=0 ./eval_seed.sh /verif/${d}patch.diff quick $pids 2>&1)
  if echo "$out" | grep -q "^== C[0-9][0-9] rc=1"; then echo "$id detected ($(echo "$out" | grep '^== ' | grep 'rc=1' | awk '{print $2}' | tr '\n' ' '))"
  elif [ "$expect" = "0" ]; then echo "$id not detected (recorded as outside the claimed properties)"
  else echo "$id MISSED"; echo "$out" | tail -5; fail=1; fi
done
if [ -z "$1" ] || [ "$1" = "benign" ]; then
  all=$(python3 -c "import json; print(' '.join(c['property_id'] for c in json.load(open('MANIFEST.json'))['checks']))")
  for d in seeded/benign/*/; do
    out=$(RUN_SUITE=0 ./eval_seed.sh /verif/${d}patch.diff quick $all 2>&1)
    if echo "$out" | grep -qE "^== C[0-9][0-9] rc=[12]"; then echo "$(basename $d) FALSE ALARM"; echo "$out" | grep -E "^== .* rc=[12]|VIOLATION" | head -5; fail=1
    else echo "$(basename $d) silent"; fi
  done
fi
git -C /repo status --short | head -3
exit $fail
