#!/bin/bash
# sensitivity regression: every stored seeded change must still be reported by the quick check of its property
cd /verif
fail=0
for d in seeded/*/; do
  id=$(basename $d); pid=${id%%-*}
  out=$(RUN_SUITE=0 ./eval_seed.sh /verif/${d}patch.diff quick $pid 2>&1)
  if echo "$out" | grep -q "^== $pid rc=1"; then echo "$id detected"; else echo "$id MISSED"; echo "$out" | tail -5; fail=1; fi
done
git -C /repo status --short | head -3
exit $fail
