#!/bin/bash
# sensitivity regression: every stored seeded change must still be reported by the quick check of its property
cd /verif
fail=0
for d in seeded/*/; do
  id=$(basename $d); pid=${id%%-*}
  out=$(RUN_SUITE=0 ./eval_seed.sh /verif/${d}patch.diff quick $pid 2>&1)
  expect=$(python3 -c "import json;print(1 if json.load(open('/verif/${d}meta.json'))['detected_by'] else 0)")
  if echo "$out" | grep -q "^== $pid rc=1"; then echo "$id detected"
  elif [ "$expect" = "0" ]; then echo "$id not detected (recorded as outside the claimed properties)"
  else echo "$id MISSED"; echo "$out" | tail -5; fail=1; fi
done
git -C /repo status --short | head -3
exit $fail
