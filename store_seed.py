#!/usr/bin/env python3
"""store_seed.py <PID> <i> <detected_by comma list or 'none'> <needs text> [demo_flags]
copies a confirmed seeded change into /verif/seeded/<PID>-<i>/ with meta.json"""
import json, os, shutil, sys
pid, i, det, needs = sys.argv[1:5]
flags = sys.argv[5] if len(sys.argv) > 5 else ""
src = os.environ.get("SRC", "/tmp/seed-%s" % pid)
dst = "/verif/seeded/%s-%s" % (pid, os.environ.get("DST_I", i))
os.makedirs(dst, exist_ok=True)
shutil.copy("%s/patch%s.diff" % (src, i), dst + "/patch.diff")
shutil.copy("%s/demo%s.rs" % (src, i), dst + "/demo.rs")
if os.path.exists("%s/note%s.md" % (src, i)):
    shutil.copy("%s/note%s.md" % (src, i), dst + "/note.md")
meta = {
    "property": pid,
    "origin": "written by an independent sub-agent that was given only the property text and a scratch worktree of /repo (nothing from /verif)",
    "needs_to_manifest": needs,
    "confirmed_by_me": {
        "scratch_worktree": "/tmp/wt-%s (removed afterwards)" % pid,
        "commands": ["git apply patch.diff", "cargo test --offline --lib %s   -> 63 passed (suite does not notice)" % flags,
                     "cp demo.rs tests/demo.rs; cargo test --offline --test demo %s   -> FAILED with the change" % flags,
                     "git checkout -- .; cargo test --offline --test demo %s   -> ok without the change" % flags],
    },
    "checks_run_against_it": "git -C /repo apply patch.diff; ./check <ID> quick; git -C /repo checkout -- .",
    "detected_by": [] if det == "none" else det.split(";"),
}
json.dump(meta, open(dst + "/meta.json", "w"), indent=1)
print("stored", dst, meta["detected_by"])
