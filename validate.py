#!/usr/bin/env python3
"""validate MANIFEST.json and evidence/*.json against the schemas (uses the tooling venv's jsonschema)"""
import json, sys, glob, jsonschema
ok = True
m = json.load(open('/verif/MANIFEST.json'))
try:
    jsonschema.validate(m, json.load(open('/root/.vp/MANIFEST.schema.json')))
    print("MANIFEST ok:", len(m['checks']), "checks,", len(m.get('not_applicable', [])), "not applicable")
except Exception as e:
    ok = False; print("MANIFEST INVALID:", e)
sc = json.load(open('/root/.vp/EVIDENCE.schema.json'))
for f in sorted(glob.glob('/verif/evidence/*.json')):
    try:
        ev = json.load(open(f)); jsonschema.validate(ev, sc)
        c = ev['coverage']
        print(f.split('/')[-1], 'ok', ev['tier'], 'eval', c.get('evaluations'), 'distinct', c.get('distinct_nontrivial'), 'wall', ev['wall_s'], 'viol', ev.get('violations'))
    except Exception as e:
        ok = False; print(f, "INVALID:", str(e)[:300])
sys.exit(0 if ok else 1)
