#!/bin/bash
# usage: confirm_seed.sh <PID> <i> [cargo test extra args...]   (env RUSTFLAGS honoured)
# confirms in the scratch worktree /tmp/wt-<PID>: suite passes with patch, demo fails with patch, demo passes without.
pid=$1; i=$2; shift 2
wt=/tmp/wt-${WT:-$pid}; sd=/tmp/${SEED_PREFIX:-seed}-${WT:-$pid}
cd $wt || exit 2
git checkout -q -- . ; git clean -fdq -e 'target*'
git apply $sd/patch$i.diff || { echo "patch$i does not apply"; exit 2; }
mkdir -p tests; cp $sd/demo$i.rs tests/demo.rs
suite=$(cargo test --offline --lib "$@" 2>&1 | grep -E "^test result" | head -1)
demo_with=$(cargo test --offline --test demo "$@" 2>&1 | grep -E "^test result|error(\[|:)" | head -2 | tr '\n' ' ')
git checkout -q -- . 
demo_without=$(cargo test --offline --test demo "$@" 2>&1 | grep -E "^test result|error(\[|:)" | head -2 | tr '\n' ' ')
rm -f tests/demo.rs; rmdir tests 2>/dev/null; git clean -fdq -e 'target*'
echo "$pid/$i suite_with_patch: $suite"
echo "$pid/$i demo_with_patch:  $demo_with"
echo "$pid/$i demo_without:     $demo_without"
