#!/bin/bash
# run every registered check (quick by default) and validate manifest + evidence
tier=${1:-quick}
cd /verif
rc_all=0
for p in $(python3 -c "import json; print(' '.join(c['property_id'] for c in json.load(open('MANIFEST.json'))['checks']))"); do
  s=$(date +%s)
  ./check $p $tier > tmp/last-$p.log 2>&1; rc=$?
  e=$(date +%s)
  echo "$p rc=$rc $((e-s))s $(grep -c '^VIOLATION' tmp/last-$p.log) violations $(grep -c '^KNOWN-FINDING' tmp/last-$p.log) known"
  [ $rc -ne 0 ] && rc_all=1
done
python3-vt validate.py || rc_all=1
exit $rc_all
